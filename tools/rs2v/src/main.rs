//! rs2v: prints chosen functions of /repo's Rust sources as terms of the Coq type `AM.Rust.Ast.expr`.
//!
//! It is a *printer*, not a translator with opinions: all meaning is given on the Coq side
//! (coq/Rust/Eval.v, coq/Rust/Script.v).  What it does decide:
//!   * which items are selected (targets file),
//!   * `#[cfg(..)]` evaluation under a fixed feature set (hot-reloading, zip, tar, embedded, macros,
//!     utils, ahash on; parking_lot, serde and the format features off; `assets_manager_verif`
//!     off, so the verification hooks are never part of the model),
//!   * references/mutability/lifetimes/types/generics are dropped (`&mut x` is `ERef x`),
//!   * macro arguments are parsed as a comma separated expression list when possible.
//!
//! usage: rs2v <repo-root> <targets-file> <out-dir>

use proc_macro2::Span;
use quote::ToTokens;
use std::collections::BTreeMap;
use std::fmt::Write as _;
use std::{env, fs, path::Path};
use syn::spanned::Spanned;

const FEATURES_ON: &[&str] = &[
    "hot-reloading",
    "zip",
    "zip-deflate",
    "tar",
    "embedded",
    "macros",
    "utils",
    "ahash",
];

thread_local! {
    /// per-target overrides: "+feat" switches a feature on, "-feat" off
    static OVERRIDES: std::cell::RefCell<Vec<String>> = const { std::cell::RefCell::new(Vec::new()) };
}

fn feature_on(name: &str) -> bool {
    let ov = OVERRIDES.with(|o| o.borrow().clone());
    if ov.iter().any(|o| o.strip_prefix('+') == Some(name)) {
        return true;
    }
    if ov.iter().any(|o| o.strip_prefix('-') == Some(name)) {
        return false;
    }
    FEATURES_ON.contains(&name)
}

fn cfg_eval(meta: &syn::Meta) -> bool {
    match meta {
        syn::Meta::Path(p) => {
            let s = p.to_token_stream().to_string();
            // doc, test, docsrs, assets_manager_verif, debug_assertions ... : all off
            let _ = s;
            false
        }
        syn::Meta::NameValue(nv) => {
            if nv.path.is_ident("feature") {
                if let syn::Expr::Lit(syn::ExprLit {
                    lit: syn::Lit::Str(s),
                    ..
                }) = &nv.value
                {
                    return feature_on(s.value().as_str());
                }
            }
            false
        }
        syn::Meta::List(l) => {
            let name = l.path.to_token_stream().to_string();
            let inner: Vec<syn::Meta> = l
                .parse_args_with(
                    syn::punctuated::Punctuated::<syn::Meta, syn::Token![,]>::parse_terminated,
                )
                .map(|p| p.into_iter().collect())
                .unwrap_or_default();
            match name.as_str() {
                "not" => !inner.iter().all(cfg_eval),
                "all" => inner.iter().all(cfg_eval),
                "any" => inner.iter().any(cfg_eval),
                _ => false,
            }
        }
    }
}

fn cfg_active(attrs: &[syn::Attribute]) -> bool {
    for a in attrs {
        if a.path().is_ident("cfg") {
            if let syn::Meta::List(l) = &a.meta {
                if let Ok(m) = l.parse_args::<syn::Meta>() {
                    if !cfg_eval(&m) {
                        return false;
                    }
                }
            }
        }
    }
    true
}

fn cstr(s: &str) -> String {
    if s.chars().all(|c| (' '..='~').contains(&c)) {
        format!("\"{}\"", s.replace('"', "\"\""))
    } else {
        let bytes: Vec<String> = s.bytes().map(|b| b.to_string()).collect();
        format!("(bs [{}]%N)", bytes.join("; "))
    }
}

fn clist(items: Vec<String>) -> String {
    format!("[{}]", items.join("; "))
}

fn copt(o: Option<String>) -> String {
    match o {
        Some(s) => format!("(Some {})", s),
        None => "None".to_string(),
    }
}

fn path_segs(p: &syn::Path) -> String {
    clist(
        p.segments
            .iter()
            .map(|s| cstr(&s.ident.to_string()))
            .collect(),
    )
}

fn lit(l: &syn::Lit) -> String {
    match l {
        syn::Lit::Int(i) => match i.base10_parse::<u128>() {
            Ok(n) => format!("(LInt {}%N)", n),
            Err(_) => format!("(LOther {})", cstr(&i.to_string())),
        },
        syn::Lit::Bool(b) => format!("(LBool {})", b.value),
        syn::Lit::Str(s) => format!("(LStr {})", cstr(&s.value())),
        syn::Lit::Char(c) => format!("(LChar {})", cstr(&c.value().to_string())),
        other => format!("(LOther {})", cstr(&other.to_token_stream().to_string())),
    }
}

fn pat(p: &syn::Pat) -> String {
    match p {
        syn::Pat::Wild(_) => "PWild".into(),
        syn::Pat::Ident(i) => format!(
            "(PIdent {} {})",
            cstr(&i.ident.to_string()),
            copt(i.subpat.as_ref().map(|(_, p)| pat(p)))
        ),
        syn::Pat::Path(pp) => format!("(PPath {})", path_segs(&pp.path)),
        syn::Pat::TupleStruct(ts) => format!(
            "(PTupleStruct {} {})",
            path_segs(&ts.path),
            clist(ts.elems.iter().map(pat).collect())
        ),
        syn::Pat::Tuple(t) => format!("(PTuple {})", clist(t.elems.iter().map(pat).collect())),
        syn::Pat::Lit(l) => format!("(PLit {})", lit(&l.lit)),
        syn::Pat::Reference(r) => format!("(PRef {})", pat(&r.pat)),
        syn::Pat::Or(o) => format!("(POr {})", clist(o.cases.iter().map(pat).collect())),
        syn::Pat::Struct(s) => format!(
            "(PStruct {} {})",
            path_segs(&s.path),
            clist(
                s.fields
                    .iter()
                    .map(|f| format!(
                        "({}, {})",
                        cstr(&f.member.to_token_stream().to_string()),
                        pat(&f.pat)
                    ))
                    .collect()
            )
        ),
        syn::Pat::Rest(_) => "PRest".into(),
        syn::Pat::Type(t) => pat(&t.pat),
        syn::Pat::Paren(p) => pat(&p.pat),
        other => format!("(POther {})", cstr(&other.to_token_stream().to_string())),
    }
}

fn block(b: &syn::Block) -> String {
    clist(stmts(&b.stmts))
}

fn stmts(ss: &[syn::Stmt]) -> Vec<String> {
    let mut out = Vec::new();
    for s in ss {
        match s {
            syn::Stmt::Local(l) => {
                if !cfg_active(&l.attrs) {
                    continue;
                }
                let (init, els) = match &l.init {
                    Some(i) => (
                        Some(expr(&i.expr)),
                        i.diverge.as_ref().map(|(_, e)| match &**e {
                            syn::Expr::Block(b) => block(&b.block),
                            other => clist(vec![expr(other)]),
                        }),
                    ),
                    None => (None, None),
                };
                out.push(format!("(ELetS {} {} {})", pat(&l.pat), copt(init), copt(els)));
            }
            syn::Stmt::Item(i) => {
                // nested items carry no run-time effect at their position
                let _ = i;
            }
            syn::Stmt::Expr(e, semi) => {
                if !cfg_active(expr_attrs(e)) {
                    continue;
                }
                if semi.is_some() {
                    out.push(format!("(ESemi {})", expr(e)));
                } else {
                    out.push(expr(e));
                }
            }
            syn::Stmt::Macro(m) => {
                if !cfg_active(&m.attrs) {
                    continue;
                }
                let e = mac(&m.mac);
                if m.semi_token.is_some() {
                    out.push(format!("(ESemi {})", e));
                } else {
                    out.push(e);
                }
            }
        }
    }
    out
}

fn expr_attrs(e: &syn::Expr) -> &[syn::Attribute] {
    use syn::Expr::*;
    match e {
        Array(x) => &x.attrs,
        Assign(x) => &x.attrs,
        Binary(x) => &x.attrs,
        Block(x) => &x.attrs,
        Break(x) => &x.attrs,
        Call(x) => &x.attrs,
        Cast(x) => &x.attrs,
        Closure(x) => &x.attrs,
        Continue(x) => &x.attrs,
        Field(x) => &x.attrs,
        ForLoop(x) => &x.attrs,
        If(x) => &x.attrs,
        Index(x) => &x.attrs,
        Let(x) => &x.attrs,
        Lit(x) => &x.attrs,
        Loop(x) => &x.attrs,
        Macro(x) => &x.attrs,
        Match(x) => &x.attrs,
        MethodCall(x) => &x.attrs,
        Paren(x) => &x.attrs,
        Path(x) => &x.attrs,
        Range(x) => &x.attrs,
        Reference(x) => &x.attrs,
        Return(x) => &x.attrs,
        Struct(x) => &x.attrs,
        Try(x) => &x.attrs,
        Tuple(x) => &x.attrs,
        Unary(x) => &x.attrs,
        Unsafe(x) => &x.attrs,
        While(x) => &x.attrs,
        _ => &[],
    }
}

fn mac(m: &syn::Macro) -> String {
    let name = m
        .path
        .segments
        .last()
        .map(|s| s.ident.to_string())
        .unwrap_or_default();
    let args = m
        .parse_body_with(syn::punctuated::Punctuated::<syn::Expr, syn::Token![,]>::parse_terminated)
        .map(|p| p.iter().map(expr).collect::<Vec<_>>());
    match args {
        Ok(a) => format!("(EMacro {} {})", cstr(&name), clist(a)),
        Err(_) => format!(
            "(EMacro {} [EOther {}])",
            cstr(&name),
            cstr(&m.tokens.to_string())
        ),
    }
}

fn opt_expr(e: &Option<Box<syn::Expr>>) -> String {
    copt(e.as_ref().map(|e| expr(e)))
}

fn expr(e: &syn::Expr) -> String {
    use syn::Expr::*;
    match e {
        Path(p) => format!("(EPath {})", path_segs(&p.path)),
        Lit(l) => format!("(ELit {})", lit(&l.lit)),
        Call(c) => format!(
            "(ECall {} {})",
            expr(&c.func),
            clist(c.args.iter().map(expr).collect())
        ),
        MethodCall(m) => format!(
            "(EMethod {} {} {})",
            expr(&m.receiver),
            cstr(&m.method.to_string()),
            clist(m.args.iter().map(expr).collect())
        ),
        Field(f) => format!(
            "(EField {} {})",
            expr(&f.base),
            cstr(&f.member.to_token_stream().to_string())
        ),
        Unary(u) => format!(
            "(EUnary {} {})",
            cstr(&u.op.to_token_stream().to_string()),
            expr(&u.expr)
        ),
        Binary(b) => format!(
            "(EBinary {} {} {})",
            cstr(&b.op.to_token_stream().to_string()),
            expr(&b.left),
            expr(&b.right)
        ),
        Assign(a) => format!("(EAssign {} {})", expr(&a.left), expr(&a.right)),
        Reference(r) => format!("(ERef {})", expr(&r.expr)),
        Paren(p) => expr(&p.expr),
        Group(g) => expr(&g.expr),
        Tuple(t) => format!("(ETuple {})", clist(t.elems.iter().map(expr).collect())),
        Array(a) => format!("(EArray {})", clist(a.elems.iter().map(expr).collect())),
        Struct(s) => format!(
            "(EStruct {} {})",
            path_segs(&s.path),
            clist(
                s.fields
                    .iter()
                    .filter(|f| cfg_active(&f.attrs))
                    .map(|f| format!(
                        "({}, {})",
                        cstr(&f.member.to_token_stream().to_string()),
                        expr(&f.expr)
                    ))
                    .collect()
            )
        ),
        If(i) => format!(
            "(EIf {} {} {})",
            expr(&i.cond),
            block(&i.then_branch),
            copt(i.else_branch.as_ref().map(|(_, e)| expr(e)))
        ),
        Let(l) => format!("(ELet {} {})", pat(&l.pat), expr(&l.expr)),
        Match(m) => format!(
            "(EMatch {} {})",
            expr(&m.expr),
            clist(
                m.arms
                    .iter()
                    .filter(|a| cfg_active(&a.attrs))
                    .map(|a| format!(
                        "({}, {}, {})",
                        pat(&a.pat),
                        copt(a.guard.as_ref().map(|(_, g)| expr(g))),
                        expr(&a.body)
                    ))
                    .collect()
            )
        ),
        Block(b) => format!("(EBlock {})", block(&b.block)),
        Unsafe(u) => format!("(EBlock {})", block(&u.block)),
        Return(r) => format!("(EReturn {})", opt_expr(&r.expr)),
        Break(_) => "EBreak".into(),
        Continue(_) => "EContinue".into(),
        Loop(l) => format!("(ELoop {})", block(&l.body)),
        While(w) => format!("(EWhile {} {})", expr(&w.cond), block(&w.body)),
        ForLoop(f) => format!("(EFor {} {} {})", pat(&f.pat), expr(&f.expr), block(&f.body)),
        Closure(c) => format!(
            "(EClosure {} {})",
            clist(c.inputs.iter().map(pat).collect()),
            expr(&c.body)
        ),
        Try(t) => format!("(ETry {})", expr(&t.expr)),
        Cast(c) => format!(
            "(ECast {} {})",
            expr(&c.expr),
            cstr(&c.ty.to_token_stream().to_string())
        ),
        Index(i) => format!("(EIndex {} {})", expr(&i.expr), expr(&i.index)),
        Range(r) => format!("(ERange {} {})", opt_expr(&r.start), opt_expr(&r.end)),
        Macro(m) => mac(&m.mac),
        other => format!("(EOther {})", cstr(&other.to_token_stream().to_string())),
    }
}

struct Found {
    line: usize,
    params: String,
    body: String,
    tokens: String,
}

fn fn_found(sig: &syn::Signature, b: &syn::Block, span: Span) -> Found {
    let params = clist(
        sig.inputs
            .iter()
            .map(|a| match a {
                syn::FnArg::Receiver(_) => "(PIdent \"self\" None)".to_string(),
                syn::FnArg::Typed(t) => pat(&t.pat),
            })
            .collect(),
    );
    Found {
        line: span.start().line,
        params,
        body: block(b),
        tokens: b.to_token_stream().to_string(),
    }
}

/// `path` = ["Type", "method"] or ["func"] or [.., "outer", "inner"] for nested fns.
fn find_in_items(items: &[syn::Item], path: &[String]) -> Option<Found> {
    for it in items {
        match it {
            // `derive@Type`: the traits a struct or enum derives, printed as a parameterless
            // function whose body lists them as paths
            syn::Item::Struct(syn::ItemStruct { attrs, ident, .. })
            | syn::Item::Enum(syn::ItemEnum { attrs, ident, .. })
                if cfg_active(attrs) && path.len() == 1 && path[0] == format!("derive@{}", ident) =>
            {
                let mut names: Vec<String> = Vec::new();
                for a in attrs {
                    if a.path().is_ident("derive") {
                        let _ = a.parse_nested_meta(|m| {
                            names.push(path_segs(&m.path));
                            Ok(())
                        });
                    }
                }
                return Some(Found {
                    line: ident.span().start().line,
                    params: "[]".to_string(),
                    body: format!("[{}]", names.iter().map(|n| format!("(EPath {})", n)).collect::<Vec<_>>().join("; ")),
                    tokens: names.join(","),
                });
            }
            // `use@Ident`: the full path under which `Ident` is imported into this scope
            syn::Item::Use(u) if cfg_active(&u.attrs) && path.len() == 1 && path[0].starts_with("use@") => {
                let want = &path[0][4..];
                fn walk(t: &syn::UseTree, prefix: &mut Vec<String>, want: &str, out: &mut Option<Vec<String>>) {
                    match t {
                        syn::UseTree::Path(p) => {
                            prefix.push(p.ident.to_string());
                            walk(&p.tree, prefix, want, out);
                            prefix.pop();
                        }
                        syn::UseTree::Name(n) => {
                            if n.ident == want {
                                let mut v = prefix.clone();
                                v.push(n.ident.to_string());
                                *out = Some(v);
                            }
                        }
                        syn::UseTree::Rename(r) => {
                            if r.rename == want {
                                let mut v = prefix.clone();
                                v.push(r.ident.to_string());
                                *out = Some(v);
                            }
                        }
                        syn::UseTree::Group(g) => {
                            for i in &g.items {
                                walk(i, prefix, want, out);
                            }
                        }
                        syn::UseTree::Glob(_) => {}
                    }
                }
                let mut found = None;
                walk(&u.tree, &mut vec![], want, &mut found);
                if let Some(segs) = found {
                    return Some(Found {
                        line: u.span().start().line,
                        params: "[]".to_string(),
                        body: format!("[(EPath {})]", clist(segs.iter().map(|x| cstr(x)).collect())),
                        tokens: segs.join("::"),
                    });
                }
            }
            // `fields@Type`: the types of a struct's fields, in order, each printed as a one-segment
            // path holding the type's tokens without spaces
            syn::Item::Struct(st)
                if cfg_active(&st.attrs) && path.len() == 1 && path[0] == format!("fields@{}", st.ident) =>
            {
                let tys: Vec<String> = st
                    .fields
                    .iter()
                    .filter(|f| cfg_active(&f.attrs))
                    .map(|f| f.ty.to_token_stream().to_string().replace(' ', ""))
                    .collect();
                return Some(Found {
                    line: st.ident.span().start().line,
                    params: "[]".to_string(),
                    body: format!("[{}]", tys.iter().map(|t| format!("(EPath [{}])", cstr(t))).collect::<Vec<_>>().join("; ")),
                    tokens: tys.join(","),
                });
            }
            syn::Item::Fn(f) if cfg_active(&f.attrs) => {
                if f.sig.ident == path[0].as_str() {
                    if path.len() == 1 {
                        return Some(fn_found(&f.sig, &f.block, f.span()));
                    }
                    if let Some(x) = find_in_block(&f.block, &path[1..]) {
                        return Some(x);
                    }
                }
            }
            syn::Item::Impl(i) if cfg_active(&i.attrs) && path.len() >= 2 => {
                let ty = i.self_ty.to_token_stream().to_string().replace(' ', "");
                // strip generics:  `Zip<R>` -> `Zip`, `dynKey+'_` kept as is
                let ty_base = ty.split('<').next().unwrap_or("").to_string();
                let want = &path[0];
                // `Trait for Type` selection: "Type@Trait"
                let (want_ty, want_trait) = match want.split_once('@') {
                    Some((a, b)) => (a.to_string(), Some(b.to_string())),
                    None => (want.clone(), None),
                };
                // `std::sync::Arc<T>` is selected as `Arc`
                // `Type<Args>` in the target selects the impl for exactly that instantiation
                if want_ty.contains('<') {
                    if ty != want_ty {
                        continue;
                    }
                } else if ty_base != want_ty && ty_base.rsplit("::").next() != Some(want_ty.as_str()) {
                    continue;
                }
                // the trait's last path segment; `Trait<Args>` in the target selects that
                // instantiation, a bare `Trait` the impl without arguments
                let tr = i.trait_.as_ref().and_then(|(_, p, _)| {
                    p.segments.last().map(|s| {
                        (s.ident.to_string(), s.to_token_stream().to_string().replace(' ', ""))
                    })
                });
                if let Some(wt) = &want_trait {
                    let ok = match &tr {
                        Some((ident, full)) => {
                            if wt.contains('<') {
                                full == wt
                            } else {
                                ident == wt && full == ident
                            }
                        }
                        None => false,
                    };
                    if !ok {
                        continue;
                    }
                }
                // `Type@Trait::items@`: the names of the functions and constants this impl defines
                // (cfg-active ones), in order: what is NOT listed comes from the trait's defaults
                if path.len() == 2 && path[1] == "items@" {
                    let names: Vec<String> = i
                        .items
                        .iter()
                        .filter_map(|ii| match ii {
                            syn::ImplItem::Fn(f) if cfg_active(&f.attrs) => Some(f.sig.ident.to_string()),
                            syn::ImplItem::Const(c) if cfg_active(&c.attrs) => Some(c.ident.to_string()),
                            _ => None,
                        })
                        .collect();
                    return Some(Found {
                        line: i.span().start().line,
                        params: "[]".to_string(),
                        body: format!("[{}]", names.iter().map(|n| format!("(EPath [{}])", cstr(n))).collect::<Vec<_>>().join("; ")),
                        tokens: names.join(","),
                    });
                }
                for ii in &i.items {
                    // an associated constant is printed as a parameterless function whose body is
                    // the constant's expression
                    if let syn::ImplItem::Const(c) = ii {
                        if cfg_active(&c.attrs) && c.ident == path[1].as_str() && path.len() == 2 {
                            return Some(Found {
                                line: c.span().start().line,
                                params: "[]".to_string(),
                                body: format!("[{}]", expr(&c.expr)),
                                tokens: c.expr.to_token_stream().to_string(),
                            });
                        }
                    }
                    if let syn::ImplItem::Fn(f) = ii {
                        if !cfg_active(&f.attrs) {
                            continue;
                        }
                        if f.sig.ident == path[1].as_str() {
                            if path.len() == 2 {
                                return Some(fn_found(&f.sig, &f.block, f.span()));
                            }
                            if let Some(x) = find_in_block(&f.block, &path[2..]) {
                                return Some(x);
                            }
                        }
                    }
                }
            }
            syn::Item::Trait(t) if cfg_active(&t.attrs) && path.len() >= 2 => {
                if t.ident != path[0].as_str() {
                    continue;
                }
                for ti in &t.items {
                    // a defaulted associated constant of a trait, printed like an impl constant
                    if let syn::TraitItem::Const(c) = ti {
                        if cfg_active(&c.attrs) && c.ident == path[1].as_str() && path.len() == 2 {
                            if let Some((_, e)) = &c.default {
                                return Some(Found {
                                    line: c.span().start().line,
                                    params: "[]".to_string(),
                                    body: format!("[{}]", expr(e)),
                                    tokens: e.to_token_stream().to_string(),
                                });
                            }
                        }
                    }
                    if let syn::TraitItem::Fn(f) = ti {
                        if !cfg_active(&f.attrs) {
                            continue;
                        }
                        if f.sig.ident == path[1].as_str() {
                            if let Some(b) = &f.default {
                                if path.len() == 2 {
                                    return Some(fn_found(&f.sig, b, f.span()));
                                }
                                if let Some(x) = find_in_block(b, &path[2..]) {
                                    return Some(x);
                                }
                            }
                        }
                    }
                }
            }
            syn::Item::Mod(m) if cfg_active(&m.attrs) => {
                if let Some((_, items)) = &m.content {
                    if let Some(x) = find_in_items(items, path) {
                        return Some(x);
                    }
                }
            }
            _ => {}
        }
    }
    None
}

fn find_in_block(b: &syn::Block, path: &[String]) -> Option<Found> {
    let items: Vec<syn::Item> = b
        .stmts
        .iter()
        .filter_map(|s| match s {
            syn::Stmt::Item(i) => Some(i.clone()),
            _ => None,
        })
        .collect();
    find_in_items(&items, path)
}

/// `A@Tr<x::Y>::f` -> ["A@Tr<x::Y>", "f"]: split on `::` outside angle brackets
fn split_path(p: &str) -> Vec<String> {
    let mut out = vec![];
    let mut cur = String::new();
    let mut depth = 0i32;
    let b: Vec<char> = p.chars().collect();
    let mut i = 0;
    while i < b.len() {
        match b[i] {
            '<' => depth += 1,
            '>' => depth -= 1,
            ':' if depth == 0 && i + 1 < b.len() && b[i + 1] == ':' => {
                out.push(std::mem::take(&mut cur));
                i += 2;
                continue;
            }
            _ => {}
        }
        cur.push(b[i]);
        i += 1;
    }
    out.push(cur);
    out
}

// ------------------------------------------------------------------ call graph dump

struct CallCollector {
    calls: std::collections::BTreeSet<String>,
}

impl<'ast> syn::visit::Visit<'ast> for CallCollector {
    fn visit_expr_method_call(&mut self, m: &'ast syn::ExprMethodCall) {
        self.calls.insert(format!("{}/{}", m.method, m.args.len()));
        // a method called on a field is also listed as `field.method/n`: who touches `x.value.get()`
        if let syn::Expr::Field(f) = &*m.receiver {
            if let syn::Member::Named(n) = &f.member {
                self.calls.insert(format!("{}.{}/{}", n, m.method, m.args.len()));
            }
        }
        syn::visit::visit_expr_method_call(self, m);
    }
    fn visit_expr_call(&mut self, c: &'ast syn::ExprCall) {
        if let syn::Expr::Path(p) = &*c.func {
            if let Some(s) = p.path.segments.last() {
                self.calls.insert(format!("{}/{}", s.ident, c.args.len()));
            }
        }
        syn::visit::visit_expr_call(self, c);
    }
    fn visit_item_fn(&mut self, _f: &'ast syn::ItemFn) {
        // nested fns are listed on their own
    }
    fn visit_stmt(&mut self, s: &'ast syn::Stmt) {
        // statements compiled out under the fixed feature set make no calls
        let active = match s {
            syn::Stmt::Local(l) => cfg_active(&l.attrs),
            syn::Stmt::Expr(e, _) => cfg_active(expr_attrs(e)),
            syn::Stmt::Macro(m) => cfg_active(&m.attrs),
            syn::Stmt::Item(_) => true,
        };
        if active {
            syn::visit::visit_stmt(self, s);
        }
    }
}

fn collect_calls(b: &syn::Block) -> Vec<String> {
    use syn::visit::Visit;
    let mut c = CallCollector { calls: Default::default() };
    c.visit_block(b);
    c.calls.into_iter().collect()
}

fn nested_fns(prefix: &str, b: &syn::Block, out: &mut Vec<(String, Vec<String>)>) {
    for s in &b.stmts {
        if let syn::Stmt::Item(syn::Item::Fn(f)) = s {
            if cfg_active(&f.attrs) {
                let name = format!("{prefix}::{}", f.sig.ident);
                out.push((name.clone(), collect_calls(&f.block)));
                nested_fns(&name, &f.block, out);
            }
        }
    }
}

fn callgraph_items(items: &[syn::Item], out: &mut Vec<(String, Vec<String>)>) {
    for it in items {
        match it {
            syn::Item::Fn(f) if cfg_active(&f.attrs) => {
                let name = f.sig.ident.to_string();
                out.push((name.clone(), collect_calls(&f.block)));
                nested_fns(&name, &f.block, out);
            }
            syn::Item::Impl(i) if cfg_active(&i.attrs) => {
                let ty = i.self_ty.to_token_stream().to_string().replace(' ', "");
                let ty = ty.split('<').next().unwrap_or("").to_string();
                for ii in &i.items {
                    if let syn::ImplItem::Fn(f) = ii {
                        if cfg_active(&f.attrs) {
                            let name = format!("{ty}::{}", f.sig.ident);
                            out.push((name.clone(), collect_calls(&f.block)));
                            nested_fns(&name, &f.block, out);
                        }
                    }
                }
            }
            syn::Item::Trait(t) if cfg_active(&t.attrs) => {
                for ti in &t.items {
                    if let syn::TraitItem::Fn(f) = ti {
                        if let (true, Some(b)) = (cfg_active(&f.attrs), &f.default) {
                            let name = format!("{}::{}", t.ident, f.sig.ident);
                            out.push((name.clone(), collect_calls(b)));
                            nested_fns(&name, b, out);
                        }
                    }
                }
            }
            syn::Item::Mod(m) if cfg_active(&m.attrs) => {
                if let Some((_, items)) = &m.content {
                    // test modules are not part of the crate's behaviour
                    if m.ident != "tests" {
                        callgraph_items(items, out);
                    }
                }
            }
            _ => {}
        }
    }
}

fn fnv(s: &str) -> u64 {
    let mut h: u64 = 0xcbf29ce484222325;
    for b in s.bytes() {
        h ^= b as u64;
        h = h.wrapping_mul(0x100000001b3);
    }
    h
}

fn main() {
    let args: Vec<String> = env::args().collect();
    if args.len() != 4 {
        eprintln!("usage: rs2v <repo-root> <targets-file> <out-dir>");
        std::process::exit(2);
    }
    let repo = Path::new(&args[1]);
    let targets = fs::read_to_string(&args[2]).expect("targets file");
    let out_dir = Path::new(&args[3]);
    fs::create_dir_all(out_dir).unwrap();

    // module -> list of (defname, file, path)
    let mut by_module: BTreeMap<String, Vec<(String, String, Vec<String>, Vec<String>)>> = BTreeMap::new();
    for line in targets.lines() {
        let line = line.trim();
        if line.is_empty() || line.starts_with('#') {
            continue;
        }
        let f: Vec<&str> = line.split_whitespace().collect();
        if f[0] == "@callgraph" {
            // @callgraph <Module> <file>...   : every function of the files with the names it calls
            let mut out = String::from(
                "(* GENERATED by rs2v from /repo's current sources -- do not edit. *)\nFrom AM Require Import Rust.Ast.\nOpen Scope string_scope.\n\n(* function name, file, names of the methods and functions it calls *)\nDefinition calls : list (string * string * list string) := [\n",
            );
            let mut first_item = true;
            for file in &f[2..] {
                let mut fns = vec![];
                match fs::read_to_string(repo.join(file)).ok().and_then(|s| syn::parse_file(&s).ok()) {
                    Some(parsed) => callgraph_items(&parsed.items, &mut fns),
                    None => fns.push(("<unparsed>".to_string(), vec![])),
                }
                for (name, calls) in fns {
                    if !first_item {
                        out.push_str(";\n");
                    }
                    first_item = false;
                    write!(
                        out,
                        "  ({}, {}, {})",
                        cstr(&name),
                        cstr(file),
                        clist(calls.iter().map(|c| cstr(c)).collect())
                    )
                    .unwrap();
                }
            }
            out.push_str("\n].\n");
            let target = out_dir.join(format!("{}.v", f[1]));
            let same = fs::read_to_string(&target).map(|old| old == out).unwrap_or(false);
            if !same {
                fs::write(&target, out).unwrap();
            }
            continue;
        }
        if f.len() != 4 && f.len() != 5 {
            eprintln!("bad target line: {line}");
            std::process::exit(2);
        }
        by_module.entry(f[0].to_string()).or_default().push((
            f[1].to_string(),
            f[2].to_string(),
            split_path(f[3]),
            f.get(4).map(|s| s.split(',').map(|x| x.to_string()).collect()).unwrap_or_default(),
        ));
    }

    let mut manifest = String::from("[\n");
    let mut first = true;
    for (module, defs) in &by_module {
        let mut out = String::new();
        writeln!(
            out,
            "(* GENERATED by rs2v from /repo's current sources -- do not edit. *)\nFrom AM Require Import Rust.Ast.\nOpen Scope string_scope.\n"
        )
        .unwrap();
        for (defname, file, path, overrides) in defs {
            OVERRIDES.with(|o| *o.borrow_mut() = overrides.clone());
            let src = fs::read_to_string(repo.join(file));
            let found = src
                .ok()
                .and_then(|s| syn::parse_file(&s).ok())
                .and_then(|f| find_in_items(&f.items, path));
            let (params, body, line, hash, status) = match found {
                Some(f) => (f.params, f.body, f.line, fnv(&f.tokens), "ok"),
                None => (
                    "[]".to_string(),
                    "[EOther \"rs2v: item not found\"]".to_string(),
                    0,
                    0,
                    "missing",
                ),
            };
            writeln!(
                out,
                "(* {}:{} {} *)\nDefinition {} : fn_def :=\n  {{| fn_name := {};\n     fn_params := {};\n     fn_body := {} |}}.\n",
                file,
                line,
                path.join("::"),
                defname,
                cstr(&path.join("::")),
                params,
                body
            )
            .unwrap();
            if !first {
                manifest.push_str(",\n");
            }
            first = false;
            write!(
                manifest,
                "  {{\"module\": \"{}\", \"def\": \"{}\", \"file\": \"{}\", \"line\": {}, \"item\": \"{}\", \"token_hash\": \"{:016x}\", \"status\": \"{}\"}}",
                module,
                defname,
                file,
                line,
                path.join("::"),
                hash,
                status
            )
            .unwrap();
        }
        let target = out_dir.join(format!("{module}.v"));
        // only touch the file when its content changes, so `make` rebuilds only what moved
        let same = fs::read_to_string(&target).map(|old| old == out).unwrap_or(false);
        if !same {
            fs::write(&target, out).unwrap();
        }
    }
    manifest.push_str("\n]\n");
    fs::write(out_dir.join("gen_manifest.json"), manifest).unwrap();
}
