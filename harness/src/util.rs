//! Shared helpers: one PRNG (splitmix64), Coq term printers, tiny CLI parsing, JSON strings.
use std::fmt::Write as _;

#[derive(Clone)]
pub struct Rng(pub u64);

impl Rng {
    pub fn new(seed: u64) -> Self {
        Rng(seed ^ 0x9E37_79B9_7F4A_7C15)
    }
    pub fn next(&mut self) -> u64 {
        self.0 = self.0.wrapping_add(0x9E37_79B9_7F4A_7C15);
        let mut z = self.0;
        z = (z ^ (z >> 30)).wrapping_mul(0xBF58_476D_1CE4_E5B9);
        z = (z ^ (z >> 27)).wrapping_mul(0x94D0_49BB_1331_11EB);
        z ^ (z >> 31)
    }
    /// uniform in 0..n (n > 0)
    pub fn below(&mut self, n: u64) -> u64 {
        self.next() % n
    }
    pub fn chance(&mut self, num: u64, den: u64) -> bool {
        self.below(den) < num
    }
    pub fn pick<'a, T>(&mut self, xs: &'a [T]) -> &'a T {
        &xs[self.below(xs.len() as u64) as usize]
    }
    pub fn fork(&mut self) -> Rng {
        Rng(self.next())
    }
}

pub struct Args {
    pub engine: String,
    pub out: String,
    pub seed: u64,
    pub tier: String,
    pub replay: Option<String>,
    pub extra: Vec<(String, String)>,
}

impl Args {
    pub fn parse() -> Args {
        let mut a = Args {
            engine: String::new(),
            out: ".".into(),
            seed: 1,
            tier: "quick".into(),
            replay: None,
            extra: vec![],
        };
        let mut it = std::env::args().skip(1);
        a.engine = it.next().unwrap_or_default();
        while let Some(k) = it.next() {
            let v = it.next().unwrap_or_default();
            match k.as_str() {
                "--out" => a.out = v,
                "--seed" => a.seed = v.parse().unwrap_or(1),
                "--tier" => a.tier = v,
                "--replay" => a.replay = Some(v),
                _ => a.extra.push((k.trim_start_matches("--").to_string(), v)),
            }
        }
        a
    }
    pub fn thorough(&self) -> bool {
        self.tier == "thorough"
    }
    pub fn get(&self, k: &str) -> Option<&str> {
        self.extra.iter().find(|(a, _)| a == k).map(|(_, v)| v.as_str())
    }
}

/// Coq string literal (or `bs [..]` for anything that is not printable ASCII).
pub fn cstr(s: &str) -> String {
    cbytes(s.as_bytes())
}

pub fn cbytes(b: &[u8]) -> String {
    if b.iter().all(|c| (b' '..=b'~').contains(c)) {
        let s = String::from_utf8_lossy(b);
        format!("\"{}\"", s.replace('"', "\"\""))
    } else {
        let v: Vec<String> = b.iter().map(|x| x.to_string()).collect();
        format!("(bs [{}])", v.join("; "))
    }
}

pub fn clist<T: AsRef<str>>(items: &[T]) -> String {
    let mut s = String::from("[");
    for (i, x) in items.iter().enumerate() {
        if i > 0 {
            s.push_str("; ");
        }
        s.push_str(x.as_ref());
    }
    s.push(']');
    s
}

pub fn cbool(b: bool) -> &'static str {
    if b {
        "true"
    } else {
        "false"
    }
}

pub fn copt(o: Option<String>) -> String {
    match o {
        Some(s) => format!("(Some {})", s),
        None => "None".into(),
    }
}

pub fn jstr(s: &str) -> String {
    let mut o = String::from("\"");
    for c in s.chars() {
        match c {
            '"' => o.push_str("\\\""),
            '\\' => o.push_str("\\\\"),
            '\n' => o.push_str("\\n"),
            '\t' => o.push_str("\\t"),
            c if (c as u32) < 0x20 => {
                let _ = write!(o, "\\u{:04x}", c as u32);
            }
            c => o.push(c),
        }
    }
    o.push('"');
    o
}

/// A cases file for Coq plus a parallel JSON-lines file describing each case for replays.
pub struct Cases {
    pub coq_defs: Vec<(String, String, Vec<String>)>, // (name, type, items)
    pub json: Vec<String>,
    pub nontrivial: std::collections::HashSet<String>,
    pub samples: Vec<String>,
}

impl Cases {
    pub fn new() -> Self {
        Cases {
            coq_defs: vec![],
            json: vec![],
            nontrivial: Default::default(),
            samples: vec![],
        }
    }
    pub fn group(&mut self, name: &str, ty: &str) -> usize {
        self.coq_defs.push((name.into(), ty.into(), vec![]));
        self.coq_defs.len() - 1
    }
    /// number of distinct cases that were flagged non-trivial
    pub fn distinct_nontrivial(&self) -> usize {
        self.nontrivial.len()
    }
    pub fn total(&self) -> usize {
        self.coq_defs.iter().map(|d| d.2.len()).sum()
    }
    pub fn samples_json(&self) -> String {
        format!("[{}]", self.samples.join(", "))
    }
    pub fn push_nt(&mut self, g: usize, coq: String, json: String, nontrivial: bool) {
        if nontrivial {
            if self.nontrivial.insert(coq.clone()) && self.samples.len() < 4 && self.nontrivial.len() % 7 == 1 {
                self.samples.push(json.clone());
            }
        }
        self.push(g, coq, json)
    }
    pub fn push(&mut self, g: usize, coq: String, json: String) {
        let idx = self.coq_defs[g].2.len();
        self.coq_defs[g].2.push(coq);
        self.json.push(format!(
            "{{\"group\": {}, \"index\": {}, \"case\": {}}}",
            jstr(&self.coq_defs[g].0),
            idx,
            json
        ));
    }
    /// Writes `<out>/<stem>.v` and `<out>/<stem>.jsonl`.  `imports` is the Require line(s),
    /// `checks` maps group name -> checker function name (bool-valued).
    pub fn write(&self, out: &str, stem: &str, imports: &str, checks: &[(&str, &str)]) {
        let mut v = String::new();
        v.push_str("(* written by the harness: cases observed on the implementation *)\n");
        v.push_str(imports);
        v.push_str("\nFrom AM Require Import Corr.Common.\nOpen Scope N_scope.\nOpen Scope string_scope.\n");
        for (name, ty, items) in &self.coq_defs {
            // very long list literals overflow coqc's stack: write them in chunks and append
            const CHUNK: usize = 4000;
            let chunks: Vec<&[String]> = if items.len() > CHUNK { items.chunks(CHUNK).collect() } else { vec![&items[..]] };
            let many = chunks.len() > 1;
            for (k, chunk) in chunks.iter().enumerate() {
                if many {
                    let _ = write!(v, "Definition {}_part{} : list ({}) := [\n", name, k, ty);
                } else {
                    let _ = write!(v, "Definition {} : list ({}) := [\n", name, ty);
                }
                for (i, it) in chunk.iter().enumerate() {
                    if i > 0 {
                        v.push_str(";\n");
                    }
                    v.push_str("  ");
                    v.push_str(it);
                }
                v.push_str("\n].\n");
            }
            if many {
                let parts: Vec<String> = (0..chunks.len()).map(|k| format!("{name}_part{k}")).collect();
                let _ = write!(v, "Definition {} : list ({}) := ({})%list.\n", name, ty, parts.join(" ++ "));
            }
        }
        for (g, f) in checks {
            // a checker named `*_code` classifies (0 = fine), any other returns a bool
            let how = if f.ends_with("_code") { "coded" } else { "failing" };
            let _ = write!(
                v,
                "Definition res_{g} := Eval vm_compute in {how} {f} {g}.\nRedirect \"{out}/{stem}.{g}\" Print res_{g}.\n"
            );
        }
        std::fs::write(format!("{out}/{stem}.v"), v).unwrap();
        std::fs::write(format!("{out}/{stem}.jsonl"), self.json.join("\n") + "\n").unwrap();
    }
}

/// JSON object from a map with displayable keys and values.
pub fn jmap<K: std::fmt::Display, V: std::fmt::Display>(m: &std::collections::BTreeMap<K, V>) -> String {
    let items: Vec<String> = m.iter().map(|(k, v)| format!("\"{}\": {}", k, v)).collect();
    format!("{{{}}}", items.join(", "))
}
