//! The system universe shared by the engines (DESIGN §4.2.1): an in-memory `Source` with fault
//! injection and an `EventSender` slot, a global thread-tagged I/O trace, value tokens whose
//! drops are logged, the asset type universe and the Compound script language.
#![allow(dead_code)]
use assets_manager::{
    asset::NotHotReloaded,
    hot_reloading::EventSender,
    loader::Loader,
    source::{DirEntry, FileContent, OwnedDirEntry, Source},
    AnyCache, Asset, BoxedError, Compound, SharedString, Storable,
};
use std::{
    borrow::Cow,
    io,
    sync::{
        atomic::{AtomicU64, Ordering},
        Arc, Mutex,
    },
};

// ------------------------------------------------------------------------------------ trace

#[derive(Clone, Debug, PartialEq)]
pub enum Ev {
    /// source read: id, ext, outcome ("ok:<len>" | "err:<kind>")
    Read(String, String, String),
    ReadDir(String, String),
    /// a loader / Compound::load produced a value: type, what (ext for assets, id for compounds), token
    Made(String, String, u64),
    /// a loader failed: type, what, class
    Failed(String, String, String),
    Drop(u64),
}

pub struct TraceEv {
    pub reloader_thread: bool,
    pub ev: Ev,
}

static TRACE: Mutex<Vec<TraceEv>> = Mutex::new(Vec::new());
static NEXT_TOK: AtomicU64 = AtomicU64::new(1);
static TRACE_ON: std::sync::atomic::AtomicBool = std::sync::atomic::AtomicBool::new(true);

pub fn on_reloader_thread() -> bool {
    std::thread::current().name() == Some("assets_hot_reload")
}

pub fn trace(ev: Ev) {
    if TRACE_ON.load(Ordering::Relaxed) {
        TRACE.lock().unwrap_or_else(|e| e.into_inner()).push(TraceEv {
            reloader_thread: on_reloader_thread(),
            ev,
        });
    }
}

pub fn trace_enable(on: bool) {
    TRACE_ON.store(on, Ordering::Relaxed);
}

pub fn trace_is_enabled() -> bool {
    TRACE_ON.load(Ordering::Relaxed)
}

pub fn take_trace() -> Vec<TraceEv> {
    std::mem::take(&mut *TRACE.lock().unwrap_or_else(|e| e.into_inner()))
}

pub fn reset_tokens() {
    NEXT_TOK.store(1, Ordering::SeqCst);
}

pub fn peek_next_tok() -> u64 {
    NEXT_TOK.load(Ordering::SeqCst)
}

/// A value token: creation and drop are logged.
#[derive(Debug)]
pub struct Tok(pub u64);

impl Tok {
    pub fn new() -> Tok {
        Tok(NEXT_TOK.fetch_add(1, Ordering::SeqCst))
    }
}

impl Drop for Tok {
    fn drop(&mut self) {
        LEDGER.lock().unwrap_or_else(|e| e.into_inner()).push(self.0);
        trace(Ev::Drop(self.0));
    }
}

/// every token dropped since the last reset, in order (independent of the trace switch)
pub static LEDGER: Mutex<Vec<u64>> = Mutex::new(Vec::new());

pub fn take_ledger() -> Vec<u64> {
    std::mem::take(&mut *LEDGER.lock().unwrap_or_else(|e| e.into_inner()))
}

// ------------------------------------------------------------------------------------ source

#[derive(Clone, Debug)]
pub enum FileState {
    Present(Vec<u8>),
    Unreadable(io::ErrorKind),
}

pub struct MemState {
    /// insertion-ordered (the model uses the same association-list discipline)
    pub files: Vec<((String, String), FileState)>,
    pub dirs: Vec<(String, Option<io::ErrorKind>)>,
    pub faults: Vec<(u64, io::ErrorKind)>,
    pub reads: u64,
    pub sender: Option<EventSender>,
    pub silent: bool,
    pub hot: bool,
    /// configure_hot_reloading keeps the sender it is given but reports failure
    pub refuse: bool,
}

#[derive(Clone)]
pub struct Mem(pub Arc<Mutex<MemState>>);

pub fn kind_name(k: io::ErrorKind) -> &'static str {
    match k {
        io::ErrorKind::NotFound => "NotFound",
        io::ErrorKind::PermissionDenied => "PermissionDenied",
        io::ErrorKind::InvalidData => "InvalidData",
        io::ErrorKind::Interrupted => "Interrupted",
        io::ErrorKind::UnexpectedEof => "UnexpectedEof",
        io::ErrorKind::TimedOut => "TimedOut",
        io::ErrorKind::Other => "Other",
        _ => "Unknown",
    }
}

pub fn kind_of_name(s: &str) -> io::ErrorKind {
    match s {
        "NotFound" => io::ErrorKind::NotFound,
        "PermissionDenied" => io::ErrorKind::PermissionDenied,
        "InvalidData" => io::ErrorKind::InvalidData,
        "Interrupted" => io::ErrorKind::Interrupted,
        "UnexpectedEof" => io::ErrorKind::UnexpectedEof,
        "TimedOut" => io::ErrorKind::TimedOut,
        _ => io::ErrorKind::Other,
    }
}

pub const KINDS: &[&str] = &[
    "NotFound",
    "PermissionDenied",
    "InvalidData",
    "Interrupted",
    "UnexpectedEof",
    "TimedOut",
    "Other",
];

pub fn parent_id(id: &str) -> Option<&str> {
    if id.is_empty() {
        None
    } else {
        match id.rfind('.') {
            Some(n) => Some(&id[..n]),
            None => Some(""),
        }
    }
}

impl Mem {
    pub fn new(hot: bool) -> Mem {
        Mem(Arc::new(Mutex::new(MemState {
            files: vec![],
            dirs: vec![("".to_string(), None)],
            faults: vec![],
            reads: 0,
            sender: None,
            hot,
            refuse: false,
            silent: false,
        })))
    }

    /// a source whose reads leave no trace events (the second, independent cache of `orf` / `ord`)
    pub fn new_silent(hot: bool) -> Mem {
        let m = Mem::new(hot);
        m.st().silent = true;
        m
    }

    pub fn st(&self) -> std::sync::MutexGuard<'_, MemState> {
        self.0.lock().unwrap_or_else(|e| e.into_inner())
    }

    pub fn write(&self, id: &str, ext: &str, content: &[u8]) {
        self.set_file(id, ext, Some(FileState::Present(content.to_vec())));
    }

    pub fn set_file(&self, id: &str, ext: &str, st: Option<FileState>) {
        let mut s = self.st();
        let key = (id.to_string(), ext.to_string());
        match st {
            Some(v) => {
                if let Some(e) = s.files.iter_mut().find(|(k, _)| *k == key) {
                    e.1 = v;
                } else {
                    s.files.push((key, v));
                }
            }
            None => s.files.retain(|(k, _)| *k != key),
        }
    }

    /// `Some(None)` = present and readable, `Some(Some(k))` = present but unreadable, `None` = remove
    pub fn set_dir(&self, id: &str, st: Option<Option<io::ErrorKind>>) {
        let mut s = self.st();
        match st {
            Some(v) => {
                if let Some(e) = s.dirs.iter_mut().find(|(k, _)| k == id) {
                    e.1 = v;
                } else {
                    s.dirs.push((id.to_string(), v));
                }
            }
            None => s.dirs.retain(|(k, _)| k != id),
        }
    }

    pub fn set_faults(&self, faults: Vec<(u64, io::ErrorKind)>) {
        let mut s = self.st();
        s.reads = 0;
        s.faults = faults;
    }

    /// a source that can be cloned for a reloader but whose hot-reloading fails to start (it keeps
    /// the sender it was handed all the same)
    pub fn new_refusing() -> Mem {
        let m = Mem::new(true);
        m.st().refuse = true;
        m
    }

    /// the source lets go of its event sender (a watcher that ended)
    pub fn drop_sender(&self) {
        self.st().sender = None;
    }

    pub fn send(&self, events: Vec<OwnedDirEntry>) -> bool {
        let sender = self.st().sender.clone();
        match sender {
            Some(s) => {
                if events.len() == 1 {
                    s.send(events.into_iter().next().unwrap()).is_ok()
                } else {
                    s.send_multiple(events).is_ok()
                }
            }
            None => false,
        }
    }

    fn next_read(&self) -> (u64, Option<io::ErrorKind>) {
        let mut s = self.st();
        let idx = s.reads;
        s.reads += 1;
        let fault = s.faults.iter().find(|(i, _)| *i == idx).map(|(_, k)| *k);
        (idx, fault)
    }
}

impl Source for Mem {
    fn read(&self, id: &str, ext: &str) -> io::Result<FileContent> {
        let (idx, fault) = self.next_read();
        let res: io::Result<Vec<u8>> = if let Some(k) = fault {
            Err(io::Error::new(k, "injected fault"))
        } else {
            let s = self.st();
            match s.files.iter().find(|((i, e), _)| i == id && e == ext) {
                Some((_, FileState::Present(b))) => Ok(b.clone()),
                Some((_, FileState::Unreadable(k))) => Err(io::Error::new(*k, "unreadable")),
                None => Err(io::Error::new(io::ErrorKind::NotFound, "no such file")),
            }
        };
        let silent = self.st().silent;
        match res {
            Ok(b) => {
                if !silent {
                    trace(Ev::Read(id.into(), ext.into(), format!("ok:{}", b.len())));
                }
                // rotate through the three FileContent variants
                Ok(match idx % 3 {
                    0 => FileContent::Buffer(b),
                    1 => FileContent::from_owned(Arc::<[u8]>::from(b)),
                    _ => FileContent::Slice(Box::leak(b.into_boxed_slice())),
                })
            }
            Err(e) => {
                if !silent {
                    trace(Ev::Read(id.into(), ext.into(), format!("err:{}", kind_name(e.kind()))));
                }
                Err(e)
            }
        }
    }

    fn read_dir(&self, id: &str, f: &mut dyn FnMut(DirEntry)) -> io::Result<()> {
        let (_, fault) = self.next_read();
        let listing: io::Result<Vec<OwnedDirEntry>> = if let Some(k) = fault {
            Err(io::Error::new(k, "injected fault"))
        } else {
            let s = self.st();
            match s.dirs.iter().find(|(d, _)| d == id) {
                None => Err(io::Error::new(io::ErrorKind::NotFound, "no such directory")),
                Some((_, Some(k))) => Err(io::Error::new(*k, "unreadable directory")),
                Some((_, None)) => {
                    let mut v = vec![];
                    for ((fid, ext), _) in &s.files {
                        if parent_id(fid) == Some(id) {
                            v.push(OwnedDirEntry::File(fid.as_str().into(), ext.as_str().into()));
                        }
                    }
                    for (d, _) in &s.dirs {
                        if parent_id(d) == Some(id) {
                            v.push(OwnedDirEntry::Directory(d.as_str().into()));
                        }
                    }
                    Ok(v)
                }
            }
        };
        let silent = self.st().silent;
        match listing {
            Ok(v) => {
                if !silent {
                    trace(Ev::ReadDir(id.into(), format!("ok:{}", v.len())));
                }
                for e in &v {
                    f(e.as_dir_entry());
                }
                Ok(())
            }
            Err(e) => {
                if !silent {
                    trace(Ev::ReadDir(id.into(), format!("err:{}", kind_name(e.kind()))));
                }
                // every other failure of a directory that exists arrives in the middle of the
                // listing: what the directory holds has been handed out, then the error comes (to
                // the caller it is the same failed read_dir)
                static LATE: std::sync::atomic::AtomicUsize = std::sync::atomic::AtomicUsize::new(0);
                if e.kind() != io::ErrorKind::NotFound && LATE.fetch_add(1, Ordering::Relaxed) % 2 == 1 {
                    let v: Vec<OwnedDirEntry> = {
                        let s = self.st();
                        let mut v = vec![];
                        if s.dirs.iter().any(|(d, _)| d == id) {
                            for ((fid, ext), _) in &s.files {
                                if parent_id(fid) == Some(id) {
                                    v.push(OwnedDirEntry::File(fid.as_str().into(), ext.as_str().into()));
                                }
                            }
                            // (files only: a sub-directory handed out is loaded at once by
                            // RecursiveDirectory, which the sequential model does not follow)
                        }
                        v
                    };
                    for x in &v {
                        f(x.as_dir_entry());
                    }
                }
                Err(e)
            }
        }
    }

    fn exists(&self, entry: DirEntry) -> bool {
        let s = self.st();
        match entry {
            DirEntry::File(id, ext) => s.files.iter().any(|((i, e), _)| i == id && e == ext),
            DirEntry::Directory(id) => s.dirs.iter().any(|(d, _)| d == id),
        }
    }

    fn make_source(&self) -> Option<Box<dyn Source + Send>> {
        if self.st().hot {
            Some(Box::new(self.clone()))
        } else {
            None
        }
    }

    fn configure_hot_reloading(&self, events: EventSender) -> Result<(), BoxedError> {
        let mut s = self.st();
        s.sender = Some(events);
        if s.refuse {
            return Err("this source does not support hot-reloading".into());
        }
        Ok(())
    }
}

// ------------------------------------------------------------------------------------ values

/// Payload of every asset value of the universe.
#[derive(Debug)]
pub struct V {
    pub tok: Tok,
    pub n: i64,
    pub note: String,
}

impl V {
    pub fn new(n: i64, note: &str) -> V {
        V {
            tok: Tok::new(),
            n,
            note: note.to_string(),
        }
    }
}

#[derive(Debug)]
pub struct ConvErr(pub String);
impl std::fmt::Display for ConvErr {
    fn fmt(&self, f: &mut std::fmt::Formatter) -> std::fmt::Result {
        write!(f, "conversion error: {}", self.0)
    }
}
impl std::error::Error for ConvErr {}

#[derive(Debug)]
pub struct ScriptFail;
impl std::fmt::Display for ScriptFail {
    fn fmt(&self, f: &mut std::fmt::Formatter) -> std::fmt::Result {
        write!(f, "script said fail")
    }
}
impl std::error::Error for ScriptFail {}

pub fn parse_int(bytes: &[u8]) -> Result<i64, BoxedError> {
    // loaders built on io::Read fail with io::Error: still a *decoding* error of the loader
    if bytes.starts_with(b"!nf") {
        return Err(Box::new(io::Error::new(io::ErrorKind::NotFound, ConvErr("io-typed decoding error".into()))));
    }
    if bytes.starts_with(b"!id") {
        return Err(Box::new(io::Error::new(io::ErrorKind::InvalidData, ConvErr("io-typed decoding error".into()))));
    }
    let s = std::str::from_utf8(bytes).map_err(|_| Box::new(ConvErr("utf8".into())) as BoxedError)?;
    s.trim()
        .parse::<i64>()
        .map_err(|_| Box::new(ConvErr(format!("not an int: {:?}", s))) as BoxedError)
}

macro_rules! int_asset {
    ($name:ident, $loader:ident, $tag:literal, [$($ext:literal),*], $hot:expr) => {
        int_asset!(@impl $name, $loader, $tag, $hot, { const EXTENSIONS: &'static [&'static str] = &[$($ext),*]; });
    };
    // one extension through `EXTENSION`: the extension list is the trait's default `&[Self::EXTENSION]`
    ($name:ident, $loader:ident, $tag:literal, single $ext:literal, $hot:expr) => {
        int_asset!(@impl $name, $loader, $tag, $hot, { const EXTENSION: &'static str = $ext; });
    };
    (@impl $name:ident, $loader:ident, $tag:literal, $hot:expr, { $($consts:tt)* }) => {
        #[derive(Debug)]
        pub struct $name(pub V);
        pub struct $loader;
        impl Loader<$name> for $loader {
            fn load(content: Cow<[u8]>, ext: &str) -> Result<$name, BoxedError> {
                match parse_int(&content) {
                    Ok(n) => {
                        let v = V::new(n, ext);
                        trace(Ev::Made($tag.into(), ext.into(), v.tok.0));
                        Ok($name(v))
                    }
                    Err(e) => {
                        trace(Ev::Failed($tag.into(), ext.into(), "conv".into()));
                        Err(e)
                    }
                }
            }
        }
        impl Asset for $name {
            $($consts)*
            type Loader = $loader;
            const HOT_RELOADED: bool = $hot;
        }
    };
}

int_asset!(TInt, TIntLoader, "I", ["x"], true);
int_asset!(TIntS, TIntSLoader, "S", ["x"], false);
impl NotHotReloaded for TIntS {}
int_asset!(TMulti, TMultiLoader, "M", ["p", "q", "r"], true);
int_asset!(TNoExt, TNoExtLoader, "X", [], true);
int_asset!(TEmptyExt, TEmptyExtLoader, "E", single "", true);

/// `default_value` turns any failure into a marker value recording the error class.
#[derive(Debug)]
pub struct TDef(pub V);
pub struct TDefLoader;
impl Loader<TDef> for TDefLoader {
    fn load(content: Cow<[u8]>, ext: &str) -> Result<TDef, BoxedError> {
        match parse_int(&content) {
            Ok(n) => {
                let v = V::new(n, ext);
                trace(Ev::Made("D".into(), ext.into(), v.tok.0));
                Ok(TDef(v))
            }
            Err(e) => {
                trace(Ev::Failed("D".into(), ext.into(), "conv".into()));
                Err(e)
            }
        }
    }
}
impl Asset for TDef {
    const EXTENSIONS: &'static [&'static str] = &["d", "e"];
    type Loader = TDefLoader;
    fn default_value(_id: &SharedString, error: BoxedError) -> Result<Self, BoxedError> {
        let class = leaf_class(&*error);
        let n = match class.as_str() {
            "conv" => -1,
            "io:NotFound" => -2,
            "nodefault" => -4,
            _ => -3,
        };
        let v = V::new(n, &format!("default:{class}"));
        trace(Ev::Made("D".into(), format!("default:{class}"), v.tok.0));
        Ok(TDef(v))
    }
}

/// exact bytes
#[derive(Debug)]
pub struct TBytes(pub V, pub Vec<u8>);
pub struct TBytesLoader;
impl Loader<TBytes> for TBytesLoader {
    fn load(content: Cow<[u8]>, ext: &str) -> Result<TBytes, BoxedError> {
        let v = V::new(content.len() as i64, ext);
        trace(Ev::Made("B".into(), ext.into(), v.tok.0));
        Ok(TBytes(v, content.into_owned()))
    }
}
impl Asset for TBytes {
    const EXTENSION: &'static str = "b";
    type Loader = TBytesLoader;
}

/// A wide value: 64 words all equal to the parsed integer (self-checking against torn reads).
#[derive(Debug)]
pub struct TWide(pub V, pub [u64; 64]);
pub struct TWideLoader;
impl Loader<TWide> for TWideLoader {
    fn load(content: Cow<[u8]>, ext: &str) -> Result<TWide, BoxedError> {
        let n = parse_int(&content)?;
        let v = V::new(n, ext);
        trace(Ev::Made("W".into(), ext.into(), v.tok.0));
        Ok(TWide(v, [n as u64; 64]))
    }
}
impl Asset for TWide {
    const EXTENSION: &'static str = "w";
    type Loader = TWideLoader;
}

/// A wide `Copy` value (512 words all equal to the parsed integer), read with copied() / cloned().
#[derive(Clone, Copy)]
pub struct TWideC(pub [u64; 512]);
pub struct TWideCLoader;
impl Loader<TWideC> for TWideCLoader {
    fn load(content: Cow<[u8]>, _ext: &str) -> Result<TWideC, BoxedError> {
        // "s<n>": a slow loader (longer than any plausible internal time-out)
        let content: &[u8] = if content.starts_with(b"s") {
            std::thread::sleep(std::time::Duration::from_millis(1600));
            &content[1..]
        } else if content.starts_with(b"m") {
            // "m<n>": a loader that takes a while (300 ms)
            std::thread::sleep(std::time::Duration::from_millis(300));
            &content[1..]
        } else {
            &content
        };
        let n = parse_int(content)?;
        Ok(TWideC([n as u64; 512]))
    }
}
impl Asset for TWideC {
    const EXTENSION: &'static str = "wc";
    type Loader = TWideCLoader;
}

/// Storable-only value (for get_or_insert)
#[derive(Debug)]
pub struct SVal(pub V);
impl Storable for SVal {}
impl NotHotReloaded for SVal {}

// ------------------------------------------------------------------------------------ errors

/// Class of a leaf error.
pub fn leaf_class(e: &(dyn std::error::Error + 'static)) -> String {
    if let Some(io) = e.downcast_ref::<io::Error>() {
        // an io::Error made by a loader (it carries the loader's marker) is a decoding error
        if io.get_ref().map(|inner| inner.is::<ConvErr>()).unwrap_or(false) {
            return "conv".into();
        }
        return format!("io:{}", kind_name(io.kind()));
    }
    if e.downcast_ref::<ConvErr>().is_some() {
        return "conv".into();
    }
    if e.downcast_ref::<ScriptFail>().is_some() {
        return "fail".into();
    }
    if e.to_string() == "the asset has neither extension nor default value" {
        return "nodefault".into();
    }
    format!("other:{}", e)
}

/// `[(id, ...)] leaf`: the chain of asset ids wrapping a leaf class.
pub fn error_chain(e: &assets_manager::Error) -> (Vec<String>, String) {
    let mut ids = vec![e.id().to_string()];
    let mut cur: &(dyn std::error::Error + 'static) = e.reason();
    loop {
        if let Some(inner) = cur.downcast_ref::<assets_manager::Error>() {
            ids.push(inner.id().to_string());
            cur = inner.reason();
        } else {
            return (ids, leaf_class(cur));
        }
    }
}

// ------------------------------------------------------------------------------------ scripts

/// A second cache some script lines talk to (`other <line>`).
pub static OTHER_CACHE: once_cell::sync::OnceCell<assets_manager::AssetCache<Mem>> =
    once_cell::sync::OnceCell::new();

/// The files of the second cache's source: the same ids as the first one's universe, contents of
/// k+1 bytes for the k-th id (all with extension "x"), directories "", "d", "d.e", "q".
pub const OTHER_FILES: &[&str] = &["a", "b", "c", "d.a", "d.b", "d.e.a", "q.a"];
pub fn other_file_len(id: &str) -> Option<usize> {
    OTHER_FILES.iter().position(|x| *x == id).map(|k| k + 1)
}
pub fn other_dir_count(dir: &str) -> Option<usize> {
    let dirs = ["", "d", "d.e", "q"];
    if !dirs.contains(&dir) {
        return None;
    }
    let files = OTHER_FILES.iter().filter(|f| parent_id(f) == Some(dir)).count();
    let subs = dirs.iter().filter(|d| !d.is_empty() && parent_id(d) == Some(dir)).count();
    Some(files + subs)
}
/// the second cache: hot-reloaded (it has its own reloader), silent, never edited
pub fn other_cache() -> &'static assets_manager::AssetCache<Mem> {
    OTHER_CACHE.get_or_init(|| {
        let m = Mem::new_silent(true);
        for d in ["d", "d.e", "q"] {
            m.set_dir(d, Some(None));
        }
        for f in OTHER_FILES {
            m.write(f, "x", &vec![b'1'; other_file_len(f).unwrap()]);
        }
        let c = assets_manager::AssetCache::with_source(m);
        // its assets are loaded once and for all (no loader runs, no token is made later on)
        let was = trace_is_enabled();
        trace_enable(false);
        for f in OTHER_FILES {
            let _ = c.load::<TInt>(f);
        }
        trace_enable(was);
        c
    })
}
/// the value of the TInt asset `id` of the other cache
pub fn other_asset_value(id: &str) -> Option<i64> {
    other_file_len(id).map(|k| "1".repeat(k).parse::<i64>().unwrap())
}

pub static RACE_EXPECTED: AtomicU64 = AtomicU64::new(0);
pub static RACE_ARRIVED: AtomicU64 = AtomicU64::new(0);

/// The cache under test, for script lines that run on a helper thread.
pub static CUR_CACHE: std::sync::atomic::AtomicUsize = std::sync::atomic::AtomicUsize::new(0);

pub fn str_weight(s: &str) -> i64 {
    s.bytes().map(|b| b as i64).sum::<i64>() + 1
}

fn with_loaded<'a>(cache: AnyCache<'a>, ty: &str, id: &str) -> Result<i64, BoxedError> {
    Ok(match ty {
        "I" => cache.load::<TInt>(id)?.read().0.n,
        "S" => cache.load::<TIntS>(id)?.read().0.n,
        "M" => cache.load::<TMulti>(id)?.read().0.n,
        "X" => cache.load::<TNoExt>(id)?.read().0.n,
        "E" => cache.load::<TEmptyExt>(id)?.read().0.n,
        "D" => cache.load::<TDef>(id)?.read().0.n,
        "B" => cache.load::<TBytes>(id)?.read().0.n,
        "N" => cache.load::<TNode>(id)?.read().0.n,
        "NS" => cache.load::<TNodeS>(id)?.read().0.n,
        "A" => cache.load::<Arc<TInt>>(id)?.read().0.n,
        "AS" => cache.load::<Arc<TIntS>>(id)?.read().0.n,
        "DI" => cache
            .load_dir::<TInt>(id)?
            .read()
            .ids()
            .map(|i| str_weight(i))
            .sum(),
        "RI" => cache
            .load_rec_dir::<TInt>(id)?
            .read()
            .ids()
            .map(|i| str_weight(i))
            .sum(),
        _ => return Err(format!("bad type {ty}").into()),
    })
}

fn with_cached(cache: AnyCache, ty: &str, id: &str) -> Result<i64, BoxedError> {
    fn f(x: Option<i64>) -> i64 {
        x.map(|n| n + 1).unwrap_or(0)
    }
    Ok(match ty {
        "I" => f(cache.get_cached::<TInt>(id).map(|h| h.read().0.n)),
        "S" => f(cache.get_cached::<TIntS>(id).map(|h| h.read().0.n)),
        "M" => f(cache.get_cached::<TMulti>(id).map(|h| h.read().0.n)),
        "D" => f(cache.get_cached::<TDef>(id).map(|h| h.read().0.n)),
        "N" => f(cache.get_cached::<TNode>(id).map(|h| h.read().0.n)),
        "NS" => f(cache.get_cached::<TNodeS>(id).map(|h| h.read().0.n)),
        "V" => f(cache.get_cached::<SVal>(id).map(|h| h.read().0.n)),
        _ => return Err(format!("bad type {ty}").into()),
    })
}

fn with_owned(cache: AnyCache, ty: &str, id: &str) -> Result<i64, BoxedError> {
    Ok(match ty {
        "I" => cache.load_owned::<TInt>(id)?.0.n,
        "S" => cache.load_owned::<TIntS>(id)?.0.n,
        "M" => cache.load_owned::<TMulti>(id)?.0.n,
        "D" => cache.load_owned::<TDef>(id)?.0.n,
        "N" => cache.load_owned::<TNode>(id)?.0.n,
        "NS" => cache.load_owned::<TNodeS>(id)?.0.n,
        _ => return Err(format!("bad type {ty}").into()),
    })
}

pub fn run_line(cache: AnyCache, words: &[&str]) -> Result<i64, BoxedError> {
    match words {
        ["val", k] => Ok(k.parse::<i64>()?),
        ["load", ty, id] => with_loaded(cache, ty, &unq(id)),
        ["cached", ty, id] => with_cached(cache, ty, &unq(id)),
        ["owned", ty, id] => with_owned(cache, ty, &unq(id)),
        // recording is a matter of the thread, not of the cache `no_record` is called on: every
        // other time it is called on a cache that has no reloader at all
        ["norec", rest @ ..] => {
            static TOGGLE: std::sync::atomic::AtomicUsize = std::sync::atomic::AtomicUsize::new(0);
            static PLAIN: std::sync::OnceLock<assets_manager::AssetCache<Mem>> = std::sync::OnceLock::new();
            if TOGGLE.fetch_add(1, Ordering::Relaxed) % 2 == 0 {
                cache.no_record(|| run_line(cache, rest))
            } else {
                let plain = PLAIN.get_or_init(|| assets_manager::AssetCache::without_hot_reloading(Mem::new_silent(false)));
                if TOGGLE.load(Ordering::Relaxed) % 4 == 2 {
                    plain.as_any_cache().no_record(|| run_line(cache, rest))
                } else {
                    plain.no_record(|| run_line(cache, rest))
                }
            }
        }
        ["try", rest @ ..] => Ok(run_line(cache, rest).unwrap_or(-7)),
        ["readfile", id, ext] => {
            let src = cache.raw_source();
            let c = src.read(&unq(id), &unq(ext))?;
            Ok(c.as_ref().len() as i64)
        }
        ["readdir", id] => {
            let mut n = 0;
            cache.raw_source().read_dir(&unq(id), &mut |_| n += 1)?;
            Ok(n)
        }
        ["insert", id, k] => Ok(cache
            .get_or_insert::<SVal>(&unq(id), SVal(V::new(k.parse::<i64>()?, "insert")))
            .read()
            .0
            .n),
        ["thread", rest @ ..] => {
            // AnyCache is not Send: the helper thread talks to the cache under test through the
            // engine-registered pointer (same cache, another thread).
            let ptr = CUR_CACHE.load(Ordering::SeqCst);
            if ptr == 0 {
                return Err("no current cache".into());
            }
            let rest: Vec<String> = rest.iter().map(|s| s.to_string()).collect();
            std::thread::scope(|s| {
                s.spawn(move || {
                    let cache: &assets_manager::AssetCache<Mem> =
                        unsafe { &*(ptr as *const assets_manager::AssetCache<Mem>) };
                    let w: Vec<&str> = rest.iter().map(|s| s.as_str()).collect();
                    run_line(cache.as_any_cache(), &w).map_err(|e| e.to_string())
                })
                .join()
                .unwrap()
            })
            .map_err(|_e: String| Box::new(ScriptFail) as BoxedError)
        }
        // reads through ANOTHER hot-reloaded cache's source while this cache's asset is loading
        ["orf", id, ext] => {
            let any = other_cache().as_any_cache();
            let src = any.raw_source();
            let c = src.read(&unq(id), &unq(ext))?;
            Ok(c.as_ref().len() as i64)
        }
        // an asset of ANOTHER hot-reloaded cache, looked up while this cache's asset is loading
        ["oload", id] => Ok(other_cache().load::<TInt>(&unq(id))?.read().0.n),
        ["ord", id] => {
            let mut n = 0;
            let any = other_cache().as_any_cache();
            let src = any.raw_source();
            src.read_dir(&unq(id), &mut |_| n += 1)?;
            Ok(n)
        }
        ["other", rest @ ..] => match OTHER_CACHE.get() {
            Some(c) => run_line(c.as_any_cache(), rest),
            None => Err("no other cache".into()),
        },
        ["catch", rest @ ..] => {
            match std::panic::catch_unwind(std::panic::AssertUnwindSafe(|| run_line(cache, rest))) {
                Ok(r) => r,
                Err(_) => Ok(-9),
            }
        }
        ["barrier"] => {
            // racediff: hold every racer inside its loader until all have missed the cache
            let expected = RACE_EXPECTED.load(Ordering::SeqCst);
            RACE_ARRIVED.fetch_add(1, Ordering::SeqCst);
            let t0 = std::time::Instant::now();
            while RACE_ARRIVED.load(Ordering::SeqCst) < expected
                && t0.elapsed() < std::time::Duration::from_millis(200)
            {
                std::hint::spin_loop();
            }
            Ok(0)
        }
        ["fail"] => Err(Box::new(ScriptFail)),
        ["panic"] => panic!("script said panic"),
        _ => Err(format!("bad script line {:?}", words).into()),
    }
}

/// ids are written `_` for the empty string
pub fn unq(s: &str) -> String {
    if s == "_" {
        String::new()
    } else {
        s.to_string()
    }
}

fn run_script(cache: AnyCache, id: &SharedString, tag: &str) -> Result<V, BoxedError> {
    let text = {
        let src = cache.raw_source();
        let content = src.read(id, "n")?;
        String::from_utf8_lossy(content.as_ref()).to_string()
    };
    let mut sum = 0i64;
    for line in text.lines() {
        let words: Vec<&str> = line.split_whitespace().collect();
        if words.is_empty() {
            continue;
        }
        match run_line(cache, &words) {
            Ok(n) => sum += n,
            Err(e) => {
                trace(Ev::Failed(tag.into(), id.to_string(), "script".into()));
                return Err(e);
            }
        }
    }
    let v = V::new(sum, "node");
    trace(Ev::Made(tag.into(), id.to_string(), v.tok.0));
    Ok(v)
}

#[derive(Debug)]
pub struct TNode(pub V);
impl Compound for TNode {
    fn load(cache: AnyCache, id: &SharedString) -> Result<Self, BoxedError> {
        run_script(cache, id, "N").map(TNode)
    }
}

#[derive(Debug)]
pub struct TNodeS(pub V);
impl Compound for TNodeS {
    fn load(cache: AnyCache, id: &SharedString) -> Result<Self, BoxedError> {
        run_script(cache, id, "NS").map(TNodeS)
    }
    const HOT_RELOADED: bool = false;
}
impl NotHotReloaded for TNodeS {}
