//! C07 (and the poller part of C06): readers against a stream of reloads of a 64-word value.
//! Implementation-side monitors, each the executable form of a theorem of Props/C07.v:
//!   torn-read                  : every read sees 64 equal words              (C07_no_torn_read)
//!   guard-not-pinned           : value and reload id sampled twice under one guard are equal, and
//!                                under a guard the id matches the value's version (C07_guard_pins)
//!   changed-outside-hot_reload : no version change while no thread is inside hot_reload
//!                                                                  (C07_only_passes_write, 5.)
//!   hot_reload-returned-early  : after hot_reload returns the reload it triggered is visible
//!   watcher                    : a value read after `reloaded()` said true is at least as new (C06)
use crate::util::*;
use crate::world::*;
use assets_manager::verif_hooks::{reload_id_raw, EVENTS_HANDLED};
use assets_manager::source::Source;
use assets_manager::{source::OwnedDirEntry, AssetCache, AssetReadGuard};
use std::sync::atomic::{AtomicBool, AtomicU64, Ordering};
use std::sync::Mutex;
use std::time::{Duration, Instant};

fn uniform(w: &[u64]) -> Option<u64> {
    let v = w[0];
    if w.iter().all(|x| *x == v) {
        Some(v)
    } else {
        None
    }
}

pub fn wait_events(target: usize) -> bool {
    let t0 = Instant::now();
    while EVENTS_HANDLED.load(Ordering::SeqCst) < target {
        if t0.elapsed() > Duration::from_secs(10) {
            return false;
        }
        std::thread::yield_now();
    }
    true
}

struct Scenario {
    readers_short: usize,
    readers_long: usize,
    readers_mapped: usize,
    pollers: usize,
    copiers: usize,
    slow_reload: bool,
    millis: u64,
}

fn run_scenario(sc: &Scenario, out_violations: &Mutex<Vec<(String, String)>>) -> (u64, u64) {
    trace_enable(false);
    let mem = Mem::new(true);
    mem.write("w0", "w", b"0");
    let cache = AssetCache::with_source(mem.clone());
    let h = cache.load::<TWide>("w0").unwrap();
    mem.write("w0", "wc", b"0");
    let hc = cache.load::<TWideC>("w0").unwrap();
    let started = AtomicU64::new(0);
    let finished = AtomicU64::new(0);
    let stop = AtomicBool::new(false);
    let reads = AtomicU64::new(0);
    let mut reloads = 0u64;
    let report = |class: &str, what: String| {
        let mut v = out_violations.lock().unwrap();
        if v.len() < 20 {
            v.push((class.to_string(), what));
        }
    };
    std::thread::scope(|s| {
        for _ in 0..sc.readers_short {
            s.spawn(|| {
                while !stop.load(Ordering::Relaxed) {
                    let g = h.read();
                    if uniform(&g.1).is_none() {
                        report("torn-read", format!("short read saw words {:?}", &g.1[..]));
                    }
                    reads.fetch_add(1, Ordering::Relaxed);
                }
            });
        }
        for _ in 0..sc.readers_long {
            s.spawn(|| {
                while !stop.load(Ordering::Relaxed) {
                    let g = h.read();
                    let id1 = reload_id_raw(h.last_reload_id()) as u64;
                    let v1 = g.1[0];
                    for _ in 0..200 {
                        std::hint::spin_loop();
                    }
                    std::thread::yield_now();
                    let id2 = reload_id_raw(h.last_reload_id()) as u64;
                    match uniform(&g.1) {
                        None => report("torn-read", format!("long-held guard saw words {:?}", &g.1[..])),
                        Some(v2) => {
                            if v2 != v1 || id1 != id2 {
                                report("guard-not-pinned", format!("under one guard: value {v1} then {v2}, reload id {id1} then {id2}"));
                            } else if id1 != v1 {
                                report("guard-not-pinned", format!("under a guard the value has version {v1} but the reload id is {id1}"));
                            }
                        }
                    }
                    drop(g);
                    reads.fetch_add(1, Ordering::Relaxed);
                }
            });
        }
        for _ in 0..sc.readers_mapped {
            s.spawn(|| {
                while !stop.load(Ordering::Relaxed) {
                    // a projection that fails hands the guard back: it must still be a guard
                    let back = match AssetReadGuard::try_map(h.read(), |w| w.1.get(1000..1001)) {
                        Ok(_) => unreachable!(),
                        Err(g) => g,
                    };
                    let b1 = back.1[0];
                    let id1 = reload_id_raw(h.last_reload_id()) as u64;
                    for _ in 0..100 {
                        std::hint::spin_loop();
                    }
                    std::thread::yield_now();
                    let id2 = reload_id_raw(h.last_reload_id()) as u64;
                    if uniform(&back.1) != Some(b1) || id1 != id2 || id1 != b1 {
                        report("guard-not-pinned", format!("guard handed back by a failed try_map: value {b1} then {:?}, reload id {id1} then {id2}", uniform(&back.1)));
                    }
                    drop(back);
                    let g = AssetReadGuard::map(h.read(), |w| &w.1[16..48]);
                    let v1 = g[0];
                    std::thread::yield_now();
                    let g2 = AssetReadGuard::try_map(g, |w| w.get(8..24)).ok().unwrap();
                    if uniform(&g2).is_none() || g2[0] != v1 {
                        report("guard-not-pinned", format!("mapped guard: first {v1}, then {:?}", &g2[..]));
                    }
                    reads.fetch_add(1, Ordering::Relaxed);
                }
            });
        }
        for i in 0..sc.copiers {
            let (stop_r, report_r, reads_r) = (&stop, &report, &reads);
            s.spawn(move || {
                // readers that never hold a guard themselves: copied() / cloned()
                while !stop_r.load(Ordering::Relaxed) {
                    let c = if i % 2 == 0 { hc.copied() } else { hc.cloned() };
                    if uniform(&c.0).is_none() {
                        let first = c.0[0];
                        let at = c.0.iter().position(|w| *w != first).unwrap_or(0);
                        report_r("torn-read", format!("copied()/cloned() value: word 0 = {first}, word {at} = {}", c.0[at]));
                    }
                    reads_r.fetch_add(1, Ordering::Relaxed);
                }
            });
        }
        for _ in 0..sc.pollers {
            s.spawn(|| {
                // C06: watcher.reloaded() then read()
                let mut w = h.reload_watcher();
                let mut seen = reload_id_raw(w.last_reload_id()) as u64;
                while !stop.load(Ordering::Relaxed) {
                    let before = reload_id_raw(h.last_reload_id()) as u64;
                    if w.reloaded() {
                        let v = h.read().1[0];
                        if v < before || v < seen {
                            report("watcher", format!("reloaded() said true with id >= {before}, then read version {v}"));
                        }
                        seen = v.max(seen);
                    } else {
                        // no reload since last asked: the id observed before asking cannot exceed what we saw
                        if before > seen {
                            // a reload may have happened between `before` and `reloaded()`: fine; but one that
                            // completed before `before` was read must have been reported
                            report("watcher", format!("reload id was {before} before asking, last seen {seen}, but reloaded() said false"));
                        }
                    }
                    std::thread::yield_now();
                }
            });
        }
        // sampler outside hot_reload
        s.spawn(|| {
            while !stop.load(Ordering::Relaxed) {
                let f1 = finished.load(Ordering::SeqCst);
                let s1 = started.load(Ordering::SeqCst);
                if s1 == f1 {
                    let v1 = h.read().1[0];
                    std::thread::yield_now();
                    let v2 = h.read().1[0];
                    let s2 = started.load(Ordering::SeqCst);
                    if s2 == s1 && v1 != v2 {
                        report("changed-outside-hot_reload", format!("no thread was inside hot_reload, yet the version went {v1} -> {v2}"));
                    }
                }
            }
        });
        // the writer: edit, notify, wait until the event is dequeued, hot_reload
        let t0 = Instant::now();
        let mut k = 0u64;
        while t0.elapsed() < Duration::from_millis(sc.millis) {
            k += 1;
            mem.write("w0", "w", format!("{k}").as_bytes());
            mem.write("w0", "wc", format!("{k}").as_bytes());
            let target = EVENTS_HANDLED.load(Ordering::SeqCst) + 1;
            mem.send(vec![OwnedDirEntry::File("w0".into(), "w".into()), OwnedDirEntry::File("w0".into(), "wc".into())]);
            if !wait_events(target) {
                report("infrastructure", "event not dequeued within 10 s".into());
                break;
            }
            // nothing may have changed yet (local mode: only inside hot_reload)
            let v0 = h.read().1[0];
            if v0 != k - 1 {
                report("changed-outside-hot_reload", format!("version {v0} visible before hot_reload was called (expected {})", k - 1));
            }
            started.fetch_add(1, Ordering::SeqCst);
            cache.hot_reload();
            finished.fetch_add(1, Ordering::SeqCst);
            let v = h.read().1[0];
            let id = reload_id_raw(h.last_reload_id()) as u64;
            if v != k || id != k {
                report("hot_reload-returned-early", format!("after hot_reload #{k} returned: version {v}, reload id {id}"));
            }
        }
        // one slow reload: hot_reload must still wait for it
        if sc.slow_reload {
            k += 1;
            mem.write("w0", "w", format!("{k}").as_bytes());
            mem.write("w0", "wc", format!("s{k}").as_bytes());
            let target = EVENTS_HANDLED.load(Ordering::SeqCst) + 1;
            mem.send(vec![OwnedDirEntry::File("w0".into(), "w".into()), OwnedDirEntry::File("w0".into(), "wc".into())]);
            if wait_events(target) {
                started.fetch_add(1, Ordering::SeqCst);
                let t = Instant::now();
                cache.hot_reload();
                let took = t.elapsed();
                finished.fetch_add(1, Ordering::SeqCst);
                let (v, vc) = (h.read().1[0], hc.copied().0[0]);
                if v != k || vc != k {
                    report("hot_reload-returned-early", format!("a reload that takes 1.6 s: hot_reload returned after {:?} with versions {v} / {vc}, expected {k}", took));
                }
            }
        }
        reloads = k;
        stop.store(true, Ordering::SeqCst);
    });
    (reloads, reads.load(Ordering::SeqCst))
}

/// Readers on ANOTHER cache's reloader thread are readers like any other: cache A's compound `Peek`
/// reads an entry of cache B from inside its load; A is told to reload `Peek` again and again (so
/// that code runs on A's hot-reloading thread) while B's entry is being reloaded all the time.  No
/// read may see a mixture of two values.
static PEEK_TARGET: std::sync::atomic::AtomicUsize = std::sync::atomic::AtomicUsize::new(0);
static PEEK_TORN: AtomicU64 = AtomicU64::new(0);
static PEEK_READS: AtomicU64 = AtomicU64::new(0);
struct Peek;
impl assets_manager::Compound for Peek {
    fn load(cache: assets_manager::AnyCache, id: &assets_manager::SharedString) -> Result<Self, assets_manager::BoxedError> {
        let _ = cache.raw_source().read(id, "pk")?;
        let b = PEEK_TARGET.load(Ordering::SeqCst) as *const AssetCache<Mem>;
        if !b.is_null() {
            let b: &'static AssetCache<Mem> = unsafe { &*b };
            if let Ok(h) = b.load::<TWide>("w0") {
                let t0 = Instant::now();
                while t0.elapsed() < Duration::from_millis(3) {
                    let g = h.read();
                    if uniform(&g.1).is_none() {
                        PEEK_TORN.fetch_add(1, Ordering::Relaxed);
                    }
                    PEEK_READS.fetch_add(1, Ordering::Relaxed);
                }
            }
        }
        Ok(Peek)
    }
}

fn cross_cache_scenario(out: &Mutex<Vec<(String, String)>>, millis: u64) -> u64 {
    let mem_b = Mem::new(true);
    mem_b.write("w0", "w", b"0");
    let b: &'static AssetCache<Mem> = Box::leak(Box::new(AssetCache::with_source(mem_b.clone())));
    if b.load::<TWide>("w0").is_err() {
        return 0;
    }
    PEEK_TARGET.store(b as *const _ as usize, Ordering::SeqCst);
    let mem_a = Mem::new(true);
    mem_a.write("p", "pk", b"0");
    let a = AssetCache::with_source(mem_a.clone());
    if a.load::<Peek>("p").is_err() {
        return 0;
    }
    let stop = AtomicBool::new(false);
    std::thread::scope(|s| {
        // A: reload Peek over and over (its load runs on A's reloader thread)
        s.spawn(|| {
            while !stop.load(Ordering::Relaxed) {
                mem_a.send(vec![OwnedDirEntry::File("p".into(), "pk".into())]);
                a.hot_reload();
            }
        });
        // B: a stream of reloads of the wide value
        let t0 = Instant::now();
        let mut n = 0u64;
        while t0.elapsed() < Duration::from_millis(millis) {
            n += 1;
            mem_b.write("w0", "w", n.to_string().as_bytes());
            mem_b.send(vec![OwnedDirEntry::File("w0".into(), "w".into())]);
            b.hot_reload();
        }
        stop.store(true, Ordering::Relaxed);
    });
    PEEK_TARGET.store(0, Ordering::SeqCst);
    let torn = PEEK_TORN.load(Ordering::Relaxed);
    let reads = PEEK_READS.load(Ordering::Relaxed);
    if torn > 0 {
        out.lock().unwrap().push((
            "torn-read".to_string(),
            format!("{torn} of {reads} reads of an entry of cache B made on cache A's hot-reloading thread (inside a Compound being reloaded) saw a mixture of two values"),
        ));
    }
    1
}

/// Serializing a handle (feature `serde`) is a read like any other: the value is walked under the
/// entry's lock.  A self-checking value is serialized by reader threads while it is reloaded all the
/// time; its `Serialize` looks at the first word, dawdles, then at all the others.
static SER_TORN: AtomicU64 = AtomicU64::new(0);
static SER_DONE: AtomicU64 = AtomicU64::new(0);
struct TSer([u64; 1024]);
impl serde::Serialize for TSer {
    fn serialize<S: serde::Serializer>(&self, s: S) -> Result<S::Ok, S::Error> {
        let first = self.0[0];
        for _ in 0..400 {
            std::hint::spin_loop();
        }
        std::thread::yield_now();
        if self.0.iter().any(|w| *w != first) {
            SER_TORN.fetch_add(1, Ordering::Relaxed);
        }
        SER_DONE.fetch_add(1, Ordering::Relaxed);
        s.serialize_u64(first)
    }
}
struct TSerLoader;
impl assets_manager::loader::Loader<TSer> for TSerLoader {
    fn load(content: std::borrow::Cow<[u8]>, _: &str) -> Result<TSer, assets_manager::BoxedError> {
        Ok(TSer([parse_int(&content)? as u64; 1024]))
    }
}
impl assets_manager::Asset for TSer {
    const EXTENSION: &'static str = "ser";
    type Loader = TSerLoader;
}
struct Show<'a>(&'a assets_manager::Handle<TSer>);
impl std::fmt::Display for Show<'_> {
    fn fmt(&self, f: &mut std::fmt::Formatter<'_>) -> std::fmt::Result {
        serde::Serialize::serialize(self.0, f)
    }
}

fn serialize_scenario(out: &Mutex<Vec<(String, String)>>, millis: u64) -> u64 {
    let mem = Mem::new(true);
    mem.write("z0", "ser", b"0");
    let cache = AssetCache::with_source(mem.clone());
    let Ok(h) = cache.load::<TSer>("z0") else { return 0 };
    let stop = AtomicBool::new(false);
    std::thread::scope(|s| {
        for _ in 0..3 {
            s.spawn(|| {
                while !stop.load(Ordering::Relaxed) {
                    let _ = format!("{}", Show(h));
                }
            });
        }
        let t0 = Instant::now();
        let mut n = 0u64;
        while t0.elapsed() < Duration::from_millis(millis) {
            n += 1;
            mem.write("z0", "ser", n.to_string().as_bytes());
            let target = EVENTS_HANDLED.load(Ordering::SeqCst) + 1;
            if mem.send(vec![OwnedDirEntry::File("z0".into(), "ser".into())]) {
                let _ = wait_events(target);
            }
            cache.hot_reload();
        }
        stop.store(true, Ordering::Relaxed);
    });
    let (torn, done) = (SER_TORN.load(Ordering::Relaxed), SER_DONE.load(Ordering::Relaxed));
    if torn > 0 {
        out.lock().unwrap().push((
            "torn-read".to_string(),
            format!("{torn} of {done} serializations of a handle (serde) saw a mixture of two values while the asset was being reloaded"),
        ));
    }
    1
}

/// A reload replaces the whole value, whatever its layout: values of alignment 1 to 64 (sizes that
/// are several words, and an odd number of bytes for the byte-aligned one) are loaded, edited and
/// reloaded; afterwards every part of the value shows the new content and the value that was
/// replaced has been dropped exactly once, the new one not at all.
fn layout_scenario(out: &Mutex<Vec<(String, String)>>) -> u64 {
    use std::sync::atomic::AtomicUsize;
    static DROPS: [AtomicUsize; 8] = [
        AtomicUsize::new(0), AtomicUsize::new(0), AtomicUsize::new(0), AtomicUsize::new(0),
        AtomicUsize::new(0), AtomicUsize::new(0), AtomicUsize::new(0), AtomicUsize::new(0),
    ];
    macro_rules! aligned {
        ($name:ident, $loader:ident, $n:literal, $ext:literal, $slot:literal, $word:ty, $len:literal) => {
            #[repr(C, align($n))]
            struct $name {
                w: [$word; $len],
                gen: u8,
            }
            impl Drop for $name {
                fn drop(&mut self) {
                    if self.gen == 1 {
                        DROPS[$slot].fetch_add(1, Ordering::SeqCst);
                    }
                }
            }
            struct $loader;
            impl assets_manager::loader::Loader<$name> for $loader {
                fn load(content: std::borrow::Cow<[u8]>, _: &str) -> Result<$name, assets_manager::BoxedError> {
                    let n = parse_int(&content)? as u8;
                    Ok($name { w: [n as $word; $len], gen: n })
                }
            }
            impl assets_manager::Asset for $name {
                const EXTENSION: &'static str = $ext;
                type Loader = $loader;
            }
        };
    }
    aligned!(A1, A1L, 1, "a1", 0, u8, 13);
    aligned!(A2, A2L, 2, "a2", 1, u16, 7);
    aligned!(A4, A4L, 4, "a4", 2, u32, 5);
    aligned!(A8, A8L, 8, "a8", 3, u64, 5);
    aligned!(A16, A16L, 16, "a16", 4, u64, 5);
    aligned!(A32, A32L, 32, "a32", 5, u64, 3);
    aligned!(A64, A64L, 64, "a64", 6, u64, 9);
    aligned!(A16B, A16BL, 16, "a16b", 7, u128, 3);
    let mem = Mem::new(true);
    let cache = AssetCache::with_source(mem.clone());
    let mut n = 0;
    macro_rules! round {
        ($name:ident, $ext:literal, $slot:literal, $what:literal) => {{
            n += 1;
            mem.write("v", $ext, b"1");
            if let Ok(h) = cache.load::<$name>("v") {
                mem.write("v", $ext, b"2");
                let target = EVENTS_HANDLED.load(Ordering::SeqCst) + 1;
                if mem.send(vec![OwnedDirEntry::File("v".into(), $ext.into())]) && wait_events(target) {
                    cache.hot_reload();
                    let g = h.read();
                    let whole = g.gen == 2 && g.w.iter().all(|x| *x == 2);
                    let drops = DROPS[$slot].load(Ordering::SeqCst);
                    if !whole || drops != 1 {
                        out.lock().unwrap().push((
                            "torn-read".to_string(),
                            format!(
                                "a value of {} reloaded from 1 to 2: afterwards gen = {}, words = {:?}; the replaced value was dropped {} time(s)",
                                $what, g.gen, g.w.iter().map(|x| *x as u64).collect::<Vec<_>>(), drops
                            ),
                        ));
                    }
                }
            }
        }};
    }
    round!(A1, "a1", 0, "alignment 1 (14 bytes)");
    round!(A2, "a2", 1, "alignment 2");
    round!(A4, "a4", 2, "alignment 4");
    round!(A8, "a8", 3, "alignment 8");
    round!(A16, "a16", 4, "alignment 16");
    round!(A32, "a32", 5, "alignment 32");
    round!(A64, "a64", 6, "alignment 64");
    round!(A16B, "a16b", 7, "alignment 16 (u128 words)");
    n
}

pub fn run(a: &Args) {
    let ms = if a.thorough() { 8000 } else { 1200 };
    let scenarios = vec![
        Scenario { readers_short: 2, readers_long: 0, readers_mapped: 0, pollers: 0, copiers: 2, slow_reload: true, millis: ms },
        Scenario { readers_short: 1, readers_long: 2, readers_mapped: 1, pollers: 1, copiers: 1, slow_reload: false, millis: ms },
        Scenario { readers_short: 3, readers_long: 3, readers_mapped: 2, pollers: 2, copiers: 2, slow_reload: false, millis: ms },
        Scenario { readers_short: 0, readers_long: 1, readers_mapped: 0, pollers: 1, copiers: 0, slow_reload: false, millis: ms / 2 },
    ];
    let violations = Mutex::new(vec![]);
    let mut total_reloads = 0;
    let mut total_reads = 0;
    let mut samples = vec![];
    let mut n = 0;
    for sc in &scenarios {
        let (r, rd) = run_scenario(sc, &violations);
        total_reloads += r;
        total_reads += rd;
        n += 1;
        samples.push(format!(
            "{{\"kind\": \"readers vs reload stream\", \"short\": {}, \"long_held\": {}, \"mapped\": {}, \"pollers\": {}, \"copied_cloned\": {}, \"reloads\": {}, \"guarded_reads\": {}}}",
            sc.readers_short, sc.readers_long, sc.readers_mapped, sc.pollers, sc.copiers, r, rd
        ));
    }
    n += layout_scenario(&violations);
    n += cross_cache_scenario(&violations, if a.thorough() { 1500 } else { 400 });
    n += serialize_scenario(&violations, if a.thorough() { 1500 } else { 400 });
    let v = violations.into_inner().unwrap();
    if !v.is_empty() {
        let mut f = String::new();
        for (class, what) in &v {
            if class == "infrastructure" {
                eprintln!("infrastructure: {what}");
                std::process::exit(3);
            }
            f.push_str(&format!(
                "{{\"engine\": \"rwdiff\", \"kind\": \"monitor\", \"class\": {}, \"case\": {{\"observed\": {}}}}}\n",
                jstr(class),
                jstr(what)
            ));
        }
        std::fs::write(format!("{}/rwdiff.violations.jsonl", a.out), f).unwrap();
    }
    std::fs::write(
        format!("{}/rwdiff.summary.json", a.out),
        format!(
            "{{\"engine\": \"rwdiff\", \"evaluations\": {}, \"distinct_nontrivial\": {}, \"samples\": [{}], \"reloads\": {}, \"guarded_reads\": {}}}",
            n,
            n,
            samples.join(", "),
            total_reloads,
            total_reads
        ),
    )
    .unwrap();
}
