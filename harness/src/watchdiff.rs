//! C12: filesystem notifications -> entries.  Synthetic `notify::Event`s for every entry of a small
//! real directory tree (plus the roots themselves, removed entries, outside paths, dotted and
//! relative components) x every event kind x one or two roots, fed to the crate's real
//! NotifyEventHandler through the hook; the entries it sends are compared (as sets) with
//! Ref.Watcher.handle.
use crate::util::*;
use assets_manager::source::OwnedDirEntry;
use assets_manager::verif_hooks::WatcherProbe;
use std::path::{Component, Path, PathBuf};

fn comps(p: &Path) -> String {
    let mut v = vec![];
    for c in p.components() {
        match c {
            Component::Normal(s) => v.push(format!("CNormal {}", cstr(&s.to_string_lossy()))),
            Component::ParentDir => v.push("CParent".to_string()),
            Component::CurDir => v.push("CCur".to_string()),
            _ => {}
        }
    }
    clist(&v)
}

fn segs(id: &str) -> String {
    if id.is_empty() {
        "[]".into()
    } else {
        clist(&id.split('.').map(cstr).collect::<Vec<_>>())
    }
}

fn entry_coq(e: &OwnedDirEntry) -> String {
    match e {
        OwnedDirEntry::File(id, ext) => format!("EFile {} {}", segs(id), cstr(ext)),
        OwnedDirEntry::Directory(id) => format!("EDir {}", segs(id)),
    }
}

pub fn run(a: &Args) {
    let base = std::env::temp_dir().join(format!("amh-watch-{}", std::process::id()));
    let _ = std::fs::remove_dir_all(&base);
    let r1 = base.join("root one");
    let r2 = r1.join("d"); // a root nested in another root
    let r3 = base.join("other");
    for d in ["", "d", "d/e", "d/e/f", "q", "d.x", "ünï"] {
        std::fs::create_dir_all(r1.join(d)).unwrap();
    }
    std::fs::create_dir_all(&r3).unwrap();
    let files = [
        "a.x", "a", "b.txt", "d/a.x", "d/b", "d/e/c.z", "d/e/f/deep.x", "q/a.x", "d.x/f.txt", "ünï/é è.x",
        "two.dots.x", ".hidden", "d/.hidden.x",
    ];
    for f in files {
        std::fs::write(r1.join(f), b"1").unwrap();
    }
    std::fs::write(r3.join("z.x"), b"1").unwrap();

    // paths to notify about
    let mut paths: Vec<PathBuf> = vec![r1.clone(), r2.clone(), r3.clone(), base.clone(), r3.join("z.x")];
    for d in ["d", "d/e", "d/e/f", "q", "d.x", "ünï"] {
        paths.push(r1.join(d));
    }
    for f in files {
        paths.push(r1.join(f));
    }
    // removed / never existing entries, relative components, a path outside every root
    for extra in ["gone.x", "d/gone", "d/e/gone.y", "nodir/x.y", "d/../a.x", "d/./b", "d/e/../../q/a.x", "../other/z.x", "d/../../root one/a.x"] {
        paths.push(r1.join(extra));
    }
    paths.push(PathBuf::from("/definitely/elsewhere.x"));

    let kinds: Vec<(u64, notify::EventKind)> = vec![
        (0, notify::EventKind::Any),
        (1, notify::EventKind::Modify(notify::event::ModifyKind::Data(notify::event::DataChange::Any))),
        (2, notify::EventKind::Modify(notify::event::ModifyKind::Name(notify::event::RenameMode::Any))),
        (2, notify::EventKind::Modify(notify::event::ModifyKind::Name(notify::event::RenameMode::From))),
        (2, notify::EventKind::Modify(notify::event::ModifyKind::Name(notify::event::RenameMode::To))),
        (1, notify::EventKind::Modify(notify::event::ModifyKind::Metadata(notify::event::MetadataKind::Any))),
        (3, notify::EventKind::Create(notify::event::CreateKind::File)),
        (3, notify::EventKind::Create(notify::event::CreateKind::Folder)),
        (4, notify::EventKind::Remove(notify::event::RemoveKind::File)),
        (4, notify::EventKind::Remove(notify::event::RemoveKind::Any)),
        (5, notify::EventKind::Access(notify::event::AccessKind::Any)),
        (6, notify::EventKind::Other),
    ];
    let root_sets: Vec<Vec<PathBuf>> = vec![vec![r1.clone()], vec![r1.clone(), r3.clone()], vec![r1.clone(), r2.clone()]];

    let mut cases = Cases::new();
    let g = cases.group(
        "watch_cases",
        "list path * path * list (path * bool) * N * list entry",
    );
    let mut n = 0u64;
    for roots in &root_sets {
        let mut probe = WatcherProbe::new(roots.clone());
        for p in &paths {
            for (ki, (code, kind)) in kinds.iter().enumerate() {
              // the entries named depend on kind and path only: event attributes (the rename
              // cookie inotify puts on every MOVED_FROM / MOVED_TO, info strings, flags) change nothing
              for attr in 0..2u8 {
                if attr == 1 && (ki + n as usize) % 3 != 0 && *code != 2 {
                    continue;
                }
                let mut ev = notify::Event::new(*kind).add_path(p.clone());
                if attr == 1 {
                    ev = ev.set_tracker(4242).set_info("verif").set_flag(notify::event::Flag::Rescan);
                }
                let kind = &format!("{kind:?}{}", if attr == 1 { " +tracker" } else { "" });
                let got = probe.feed(ev);
                let mut dirs = vec![format!("({}, {})", comps(p), cbool(p.is_dir()))];
                if let Some(q) = p.parent() {
                    dirs.push(format!("({}, {})", comps(q), cbool(q.is_dir())));
                }
                let coq = format!(
                    "({}, {}, {}, {}, {})",
                    clist(&roots.iter().map(|r| comps(r)).collect::<Vec<_>>()),
                    comps(p),
                    clist(&dirs),
                    code,
                    clist(&got.iter().map(entry_coq).collect::<Vec<_>>())
                );
                let json = format!(
                    "{{\"roots\": {:?}, \"path\": {:?}, \"kind\": {}, \"sent\": {}}}",
                    roots,
                    p,
                    jstr(kind),
                    jstr(&format!("{got:?}"))
                );
                cases.push_nt(g, coq, json, !got.is_empty());
                n += 1;
              }
            }
        }
    }
    let mut trip_bad: Vec<String> = vec![];
    // names that are not UTF-8 cannot be written as an id or an extension: a notification for such
    // a path (a file whose extension, stem or directory is not UTF-8) must name NO entry -- in
    // particular not the entry of a neighbouring file (`foo.<0xff>` is not `foo`)
    #[cfg(unix)]
    {
        use std::os::unix::ffi::OsStrExt;
        let raw: [&[u8]; 5] = [b"a.\xff", b"\xff.x", b"d/b.\xfe\xff", b"q/\xffdir/a.x", b"two.dots.\xc3"];
        let mut probe = WatcherProbe::new(vec![r1.clone()]);
        for name in raw {
            let p = r1.join(std::ffi::OsStr::from_bytes(name));
            if let Some(parent) = p.parent() {
                let _ = std::fs::create_dir_all(parent);
            }
            let _ = std::fs::write(&p, b"1");
            for (_, kind) in kinds.iter() {
                let got = probe.feed(notify::Event::new(*kind).add_path(p.clone()));
                n += 1;
                // the parent directory may be named (a creation or removal changes its listing);
                // any other entry is a different path
                let wrong: Vec<&OwnedDirEntry> = got
                    .iter()
                    .filter(|e| match e {
                        OwnedDirEntry::Directory(id) => Some(r1.join(id.replace('.', "/")).as_path()) != p.parent(),
                        OwnedDirEntry::File(..) => true,
                    })
                    .collect();
                if !wrong.is_empty() && trip_bad.len() < 5 {
                    trip_bad.push(format!("{kind:?} for {p:?} (a name that is not UTF-8) was turned into {wrong:?}"));
                }
            }
        }
    }
    // the other direction, and the round trip the property states: for every existing entry of the
    // tree a data-modification event of its path names an entry whose `FileSystem::path_of` is
    // that very path; `path_of` itself is compared with Ref.Watcher.path_of
    let g_po = cases.group("pathof_cases", "path * entry * path");
    {
        let fs = assets_manager::source::FileSystem::new(&r1).unwrap();
        let root = fs.root().to_path_buf();
        let mut probe = WatcherProbe::new(vec![root.clone()]);
        let data = notify::EventKind::Modify(notify::event::ModifyKind::Data(notify::event::DataChange::Any));
        let mut targets: Vec<PathBuf> = files.iter().map(|f| root.join(f)).collect();
        for d in ["d", "d/e", "d/e/f", "q", "ünï"] {
            targets.push(root.join(d));
        }
        for t in &targets {
            let got = probe.feed(notify::Event::new(data).add_path(t.clone()));
            for e in &got {
                let back = fs.path_of(e.as_dir_entry());
                cases.push_nt(
                    g_po,
                    format!("({}, {}, {})", comps(&root), entry_coq(e), comps(&back)),
                    format!("{{\"kind\": \"path_of\", \"root\": {:?}, \"entry\": {}, \"path_of\": {:?}}}", root, jstr(&format!("{e:?}")), back),
                    true,
                );
                n += 1;
                if back != *t && trip_bad.len() < 5 {
                    trip_bad.push(format!(
                        "a notification for {t:?} names {e:?}, whose path_of is {back:?}"
                    ));
                }
            }
            // names the watcher cannot express (dots inside the stem, hidden files) send nothing
        }
    }
    // the real watcher (FsWatcherBuilder + inotify): the FIRST notification after the watcher was
    // built already names its entries (single-notification operations: delete, create-empty)
    let mut real_bad: Vec<String> = vec![];
    for (k, op) in ["delete", "create"].iter().enumerate() {
        let dir = base.join(format!("real{k}"));
        let _ = std::fs::create_dir_all(dir.join("d"));
        std::fs::write(dir.join("d").join("a.txt"), "1").unwrap();
        std::fs::write(dir.join("d").join("b.txt"), "2").unwrap();
        let cache = assets_manager::AssetCache::new(&dir).unwrap();
        let listing = |c: &assets_manager::AssetCache| -> Vec<String> {
            c.load_dir::<String>("d").map(|h| h.read().ids().map(|i| i.to_string()).collect()).unwrap_or_default()
        };
        let before = listing(&cache);
        let expect: Vec<String> = if *op == "delete" {
            std::fs::remove_file(dir.join("d").join("b.txt")).unwrap();
            vec!["d.a".into()]
        } else {
            std::fs::File::create(dir.join("d").join("c.txt")).unwrap();
            vec!["d.a".into(), "d.b".into(), "d.c".into()]
        };
        let t0 = std::time::Instant::now();
        let mut now = listing(&cache);
        while now != expect && t0.elapsed() < std::time::Duration::from_secs(5) {
            std::thread::sleep(std::time::Duration::from_millis(20));
            cache.hot_reload();
            now = listing(&cache);
        }
        n += 1;
        if now != expect {
            real_bad.push(format!("real watcher, first operation after start = {op} in d/: directory d listed {before:?} before and still {now:?} 5 s later (expected {expect:?})"));
        }
    }
    // the real watcher on a root that is not spelled canonically (through a symlink, with `..`):
    // notify reports paths under the spelling it was given, and the builder keeps that spelling
    {
        use assets_manager::source::{DirEntry, FileContent, FileSystem, Source};
        #[derive(Clone)]
        struct Linked {
            fs: FileSystem,
            watch: PathBuf,
        }
        impl Source for Linked {
            fn read(&self, id: &str, ext: &str) -> std::io::Result<FileContent> {
                self.fs.read(id, ext)
            }
            fn read_dir(&self, id: &str, f: &mut dyn FnMut(DirEntry)) -> std::io::Result<()> {
                self.fs.read_dir(id, f)
            }
            fn exists(&self, e: DirEntry) -> bool {
                self.fs.exists(e)
            }
            fn make_source(&self) -> Option<Box<dyn Source + Send>> {
                Some(Box::new(self.clone()))
            }
            fn configure_hot_reloading(&self, events: assets_manager::hot_reloading::EventSender) -> Result<(), assets_manager::BoxedError> {
                let mut b = assets_manager::hot_reloading::FsWatcherBuilder::new()?;
                b.watch(self.watch.clone())?;
                b.build(events);
                Ok(())
            }
        }
        let real = base.join("spelled");
        let _ = std::fs::create_dir_all(real.join("sub"));
        let link = base.join("spelled-link");
        let _ = std::os::unix::fs::symlink(&real, &link);
        let spellings = [("a symlink to the directory", link.clone()), ("a path with `..`", real.join("sub").join("..")), ("the plain path", real.clone())];
        for (k, (what, watch)) in spellings.iter().enumerate() {
            let file = format!("t{k}");
            std::fs::write(real.join(format!("{file}.txt")), "one").unwrap();
            std::fs::write(real.join("sub").join(format!("{file}.txt")), "one").unwrap();
            let Ok(fs) = FileSystem::new(&real) else { continue };
            let cache = assets_manager::AssetCache::with_source(Linked { fs, watch: watch.clone() });
            let top = cache.load::<String>(&file).map(|h| h.read().clone()).ok();
            let sub = cache.load::<String>(&format!("sub.{file}")).map(|h| h.read().clone()).ok();
            std::thread::sleep(std::time::Duration::from_millis(50));
            std::fs::write(real.join(format!("{file}.txt")), "two").unwrap();
            std::fs::write(real.join("sub").join(format!("{file}.txt")), "two").unwrap();
            let t0 = std::time::Instant::now();
            let read = |c: &assets_manager::AssetCache<Linked>, id: &str| c.get_cached::<String>(id).map(|h| h.read().clone());
            while (read(&cache, &file).as_deref() != Some("two") || read(&cache, &format!("sub.{file}")).as_deref() != Some("two"))
                && t0.elapsed() < std::time::Duration::from_secs(5)
            {
                std::thread::sleep(std::time::Duration::from_millis(20));
                cache.hot_reload();
            }
            n += 1;
            let (t2, s2) = (read(&cache, &file), read(&cache, &format!("sub.{file}")));
            if top.as_deref() == Some("one") && sub.as_deref() == Some("one") && (t2.as_deref() != Some("two") || s2.as_deref() != Some("two")) {
                real_bad.push(format!("real watcher on a root given as {what} ({watch:?}): files rewritten from \"one\" to \"two\" still read {t2:?} (top level) and {s2:?} (sub-directory) 5 s later"));
            }
        }
    }
    if !real_bad.is_empty() || !trip_bad.is_empty() {
        let mut f: String = real_bad
            .iter()
            .map(|v| format!("{{\"engine\": \"watchdiff\", \"kind\": \"monitor\", \"class\": \"first-notification-lost\", \"case\": {{\"observed\": {}}}}}\n", jstr(v)))
            .collect();
        for v in &trip_bad {
            f.push_str(&format!("{{\"engine\": \"watchdiff\", \"kind\": \"monitor\", \"class\": \"event-names-another-path\", \"case\": {{\"observed\": {}}}}}\n", jstr(v)));
        }
        std::fs::write(format!("{}/watchdiff.violations.jsonl", a.out), f).unwrap();
    }
    let _ = std::fs::remove_dir_all(&base);
    let _ = a.thorough();
    cases.write(
        &a.out,
        "watchdiff",
        "From AM Require Import Ref.Watcher Corr.WatchCheck.",
        &[("watch_cases", "watch_check"), ("pathof_cases", "pathof_check")],
    );
    std::fs::write(
        format!("{}/watchdiff.summary.json", a.out),
        format!(
            "{{\"engine\": \"watchdiff\", \"evaluations\": {}, \"distinct_nontrivial\": {}, \"samples\": {}, \"paths\": {}, \"event_kinds\": {}, \"root_sets\": {}}}",
            n,
            cases.distinct_nontrivial(),
            cases.samples_json(),
            paths.len(),
            kinds.len(),
            root_sets.len()
        ),
    )
    .unwrap();
}
