//! C18: ReloadId / AtomicReloadId against Ref.ReloadId.
//!  (a) exhaustive sequences of `ReloadId::update` over small ids,
//!  (b) random sequential mixtures of AtomicReloadId operations,
//!  (c) concurrent `update` callers on one AtomicReloadId; per-thread (offer, answer) logs.
use crate::util::*;
use assets_manager::verif_hooks::{reload_id_from, reload_id_raw};
use assets_manager::{AtomicReloadId, ReloadId};
use std::sync::{Arc, Barrier};

pub fn run(a: &Args) {
    let mut rng = Rng::new(a.seed);
    let mut cases = Cases::new();

    // (a) exhaustive
    let (max_len, nids) = if a.thorough() { (5usize, 5u64) } else { (4, 4) };
    let g_seq = cases.group("seq_cases", "N * list N * N * list bool");
    let mut n_seq = 0u64;
    for start in 0..nids {
        let mut stack: Vec<Vec<u64>> = vec![vec![]];
        while let Some(seq) = stack.pop() {
            let mut cur = reload_id_from(start as usize);
            let mut answers = vec![];
            for &o in &seq {
                answers.push(cur.update(reload_id_from(o as usize)));
            }
            let fin = reload_id_raw(cur) as u64;
            cases.push_nt(
                g_seq,
                format!(
                    "({}, {}, {}, {})",
                    start,
                    clist(&seq.iter().map(|x| x.to_string()).collect::<Vec<_>>()),
                    fin,
                    clist(&answers.iter().map(|b| cbool(*b)).collect::<Vec<_>>())
                ),
                format!(
                    "{{\"kind\": \"ReloadId::update sequence\", \"start\": {}, \"offers\": {:?}, \"final\": {}, \"answers\": {:?}}}",
                    start, seq, fin, answers
                ),
                seq.len() >= 2,
            );
            n_seq += 1;
            if seq.len() < max_len {
                for o in 0..nids {
                    let mut s = seq.clone();
                    s.push(o);
                    stack.push(s);
                }
            }
        }
    }

    // (a') the same on ids at the edges of the representation: around 0, isize::MAX and usize::MAX
    // (ids compare as unsigned numbers over the whole range, not as serial numbers)
    let edge: Vec<u64> = {
        let h = 1u64 << 63;
        vec![0, 1, 2, h - 2, h - 1, h, h + 1, h + 2, u64::MAX - 2, u64::MAX - 1, u64::MAX]
    };
    let n_edge = if a.thorough() { 4000 } else { 300 };
    for _ in 0..n_edge {
        let start = edge[rng.below(edge.len() as u64) as usize];
        let len = 1 + rng.below(5) as usize;
        let seq: Vec<u64> = (0..len).map(|_| edge[rng.below(edge.len() as u64) as usize]).collect();
        let mut cur = reload_id_from(start as usize);
        let mut answers = vec![];
        for &o in &seq {
            answers.push(cur.update(reload_id_from(o as usize)));
        }
        let fin = reload_id_raw(cur) as u64;
        cases.push_nt(
            g_seq,
            format!(
                "({}, {}, {}, {})",
                start,
                clist(&seq.iter().map(|x| x.to_string()).collect::<Vec<_>>()),
                fin,
                clist(&answers.iter().map(|b| cbool(*b)).collect::<Vec<_>>())
            ),
            format!(
                "{{\"kind\": \"ReloadId::update sequence (edge ids)\", \"start\": {}, \"offers\": {:?}, \"final\": {}, \"answers\": {:?}}}",
                start, seq, fin, answers
            ),
            true,
        );
        n_seq += 1;
    }

    // (b) sequential mixtures on the atomic cell (large ids included)
    let g_at = cases.group("at_cases", "N * list aop * list aout * N");
    let n_at = if a.thorough() { 5000 } else { 400 };
    let mut op_hist = [0u64; 6];
    for _ in 0..n_at {
        let big = rng.below(8);
        let mut id = |rng: &mut Rng| -> u64 {
            match big {
                0 => rng.below(1 << 40),
                1 => edge[rng.below(edge.len() as u64) as usize],
                _ => rng.below(6),
            }
        };
        let start = id(&mut rng);
        let cell = AtomicReloadId::with_value(reload_id_from(start as usize));
        let len = rng.below(9);
        let mut ops = vec![];
        let mut outs = vec![];
        for _ in 0..len {
            let k = rng.below(5) as usize;
            op_hist[k] += 1;
            let n = id(&mut rng);
            match k {
                0 => {
                    ops.push(format!("AUpdate {n}"));
                    outs.push(format!("OBool {}", cbool(cell.update(reload_id_from(n as usize)))));
                }
                1 => {
                    ops.push(format!("AFetchMax {n}"));
                    outs.push(format!("OId {}", reload_id_raw(cell.fetch_max(reload_id_from(n as usize)))));
                }
                2 => {
                    ops.push(format!("ASwap {n}"));
                    outs.push(format!("OId {}", reload_id_raw(cell.swap(reload_id_from(n as usize)))));
                }
                3 => {
                    ops.push(format!("AStore {n}"));
                    cell.store(reload_id_from(n as usize));
                    outs.push("ONone".to_string());
                }
                _ => {
                    ops.push("ALoad".to_string());
                    outs.push(format!("OId {}", reload_id_raw(cell.load())));
                }
            }
        }
        let fin = reload_id_raw(cell.load());
        cases.push_nt(
            g_at,
            format!("({}, {}, {}, {})", start, clist(&ops), clist(&outs), fin),
            format!(
                "{{\"kind\": \"AtomicReloadId sequential ops\", \"start\": {}, \"ops\": {:?}, \"outs\": {:?}, \"final\": {}}}",
                start, ops, outs, fin
            ),
            ops.len() >= 2,
        );
    }

    // (c) concurrent update callers
    let g_c = cases.group("conc_cases", "N * list (list (N * bool)) * N");
    let n_conc = if a.thorough() { 20000 } else { 2500 };
    let mut thr_hist = std::collections::BTreeMap::new();
    for round in 0..n_conc {
        // most rounds are tight races: few threads, one or two offers each, released together
        let tight = round % 10 != 0;
        let threads = if tight { 2 + rng.below(3) as usize } else { 2 + rng.below(if a.thorough() { 15 } else { 7 }) as usize };
        *thr_hist.entry(threads).or_insert(0u64) += 1;
        let per = if tight { 1 + rng.below(2) as usize } else { 1 + rng.below(40) as usize };
        let range = if tight { 2 + rng.below(6) } else { 1 + rng.below(30) };
        // some rounds race on ids at the edges of the representation
        let use_edge = round % 7 == 3;
        let pick = |rng: &mut Rng, bound: u64| -> u64 {
            if use_edge {
                edge[rng.below(edge.len() as u64) as usize]
            } else {
                rng.below(bound)
            }
        };
        let start = pick(&mut rng, range.min(4));
        let cell = Arc::new(AtomicReloadId::with_value(reload_id_from(start as usize)));
        let barrier = Arc::new(Barrier::new(threads));
        let mut handles = vec![];
        for _ in 0..threads {
            let offers: Vec<u64> = (0..per).map(|_| pick(&mut rng, range)).collect();
            let cell = cell.clone();
            let barrier = barrier.clone();
            handles.push(std::thread::spawn(move || {
                barrier.wait();
                // leave the barrier's wake-up skew behind
                for _ in 0..50 {
                    std::hint::spin_loop();
                }
                offers
                    .into_iter()
                    .map(|o| (o, cell.update(reload_id_from(o as usize))))
                    .collect::<Vec<_>>()
            }));
        }
        let logs: Vec<Vec<(u64, bool)>> = handles.into_iter().map(|h| h.join().unwrap()).collect();
        let fin = reload_id_raw(cell.load());
        let coq_logs: Vec<String> = logs
            .iter()
            .map(|l| {
                clist(
                    &l.iter()
                        .map(|(o, b)| format!("({}, {})", o, cbool(*b)))
                        .collect::<Vec<_>>(),
                )
            })
            .collect();
        cases.push_nt(
            g_c,
            format!("({}, {}, {})", start, clist(&coq_logs), fin),
            format!(
                "{{\"kind\": \"concurrent AtomicReloadId::update\", \"start\": {}, \"threads\": {}, \"logs\": {}, \"final\": {}}}",
                start,
                threads,
                clist(
                    &logs
                        .iter()
                        .map(|l| clist(&l.iter().map(|(o, b)| format!("[{}, {}]", o, b)).collect::<Vec<_>>()).replace(';', ","))
                        .collect::<Vec<_>>()
                )
                .replace(';', ","),
                fin
            ),
            true,
        );
    }

    // (d) concurrent swaps are exchanges: every id put into the cell is handed back to exactly one
    // caller or is the one left in the cell (nothing lost, nothing handed out twice); and of several
    // callers swapping the same new id into a cell holding NEVER exactly one gets NEVER back
    let mut swap_bad: Vec<String> = vec![];
    let swap_rounds = if a.thorough() { 400 } else { 40 };
    for round in 0..swap_rounds {
        let threads = 3 + (round % 3) as usize;
        let per = 2000usize;
        let cell = Arc::new(AtomicReloadId::with_value(reload_id_from(0)));
        let barrier = Arc::new(Barrier::new(threads));
        let handles: Vec<_> = (0..threads)
            .map(|k| {
                let cell = cell.clone();
                let barrier = barrier.clone();
                std::thread::spawn(move || {
                    barrier.wait();
                    (0..per).map(|j| reload_id_raw(cell.swap(reload_id_from(1 + k * per + j)))).collect::<Vec<usize>>()
                })
            })
            .collect();
        let mut seen = vec![0u32; threads * per + 1];
        for h in handles {
            for x in h.join().unwrap() {
                if x < seen.len() {
                    seen[x] += 1;
                }
            }
        }
        let fin = reload_id_raw(cell.load());
        if fin < seen.len() {
            seen[fin] += 1;
        }
        let lost = seen.iter().filter(|c| **c == 0).count();
        let twice = seen.iter().filter(|c| **c > 1).count();
        if (lost > 0 || twice > 0) && swap_bad.len() < 3 {
            swap_bad.push(format!("{threads} threads x {per} swaps of distinct ids: {lost} ids were never handed back, {twice} were handed out more than once"));
        }
        // one growth, one winner
        let cell = Arc::new(AtomicReloadId::with_value(reload_id_from(0)));
        let barrier = Arc::new(Barrier::new(threads));
        let handles: Vec<_> = (0..threads)
            .map(|_| {
                let cell = cell.clone();
                let barrier = barrier.clone();
                std::thread::spawn(move || {
                    barrier.wait();
                    reload_id_raw(cell.swap(reload_id_from(7)))
                })
            })
            .collect();
        let zeros = handles.into_iter().map(|h| h.join().unwrap()).filter(|x| *x == 0).count();
        if zeros != 1 && swap_bad.len() < 3 {
            swap_bad.push(format!("{threads} threads swap id 7 into a cell holding NEVER: {zeros} of them got NEVER back"));
        }
    }
    if !swap_bad.is_empty() {
        let f: String = swap_bad
            .iter()
            .map(|v| format!("{{\"engine\": \"ridiff\", \"kind\": \"monitor\", \"class\": \"swap-not-atomic\", \"case\": {{\"observed\": {}}}}}\n", jstr(v)))
            .collect();
        std::fs::write(format!("{}/ridiff.violations.jsonl", a.out), f).unwrap();
    }

    cases.write(
        &a.out,
        "ridiff",
        "From AM Require Import Ref.ReloadId Corr.Rid.",
        &[
            ("seq_cases", "seq_check"),
            ("at_cases", "at_check"),
            ("conc_cases", "conc_check"),
        ],
    );
    let summary = format!(
        "{{\"engine\": \"ridiff\", \"distinct_nontrivial\": {}, \"samples\": {}, \"evaluations\": {}, \"groups\": {{\"seq_cases\": {}, \"at_cases\": {}, \"conc_cases\": {}}}, \"exhaustive_bound\": {{\"max_len\": {}, \"ids\": {}}}, \"distribution\": {{\"atomic_op_kinds(update,fetch_max,swap,store,load)\": {:?}, \"threads_per_concurrent_case\": {}}}}}",
        cases.distinct_nontrivial(),
        cases.samples_json(),
        n_seq + n_at as u64 + n_conc as u64,
        n_seq,
        n_at,
        n_conc,
        max_len,
        nids,
        &op_hist[..5],
        jmap(&thr_hist)
    );
    std::fs::write(format!("{}/ridiff.summary.json", a.out), summary).unwrap();
}
