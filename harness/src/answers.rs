//! C08 (and the hang part of C09): liveness of `hot_reload`.
//!  (A) K threads calling `hot_reload` concurrently with loader threads and event bursts, under a
//!      progress watchdog (stall = no caller made progress for STALL_MS while some are unfinished);
//!  (B) dependency shapes including cyclic look-ups, each in a child process (an abort or a hang of
//!      the child is the observation);
//!  (C) a loader that panics during a reload, in a child process.
//! Observations are judged by the implementation-side monitor "every call returns; the process does
//! not abort", which is the statement of the Coq theorems (no deadlock, visit terminates).
use crate::util::*;
use crate::world::*;
use assets_manager::{source::OwnedDirEntry, AssetCache};
use std::sync::atomic::{AtomicBool, AtomicU64, Ordering};
use std::time::{Duration, Instant};

const STALL_MS: u64 = 4000;

fn violation(out: &str, class: &str, case: String) {
    use std::io::Write;
    let mut f = std::fs::OpenOptions::new()
        .create(true)
        .append(true)
        .open(format!("{out}/answers.violations.jsonl"))
        .unwrap();
    writeln!(
        f,
        "{{\"engine\": \"answers\", \"kind\": \"liveness\", \"class\": {}, \"case\": {}}}",
        jstr(class),
        case
    )
    .unwrap();
}

/// Returns None if all calls completed, Some(progress snapshot) on a stall.
fn concurrent_scenario(callers: usize, calls: u64, loaders: usize, bursts: bool) -> Option<Vec<u64>> {
    trace_enable(false);
    let mem = Mem::new(true);
    for i in 0..8 {
        mem.write(&format!("a{i}"), "x", b"1");
    }
    let cache = AssetCache::with_source(mem.clone());
    for i in 0..8 {
        cache.load::<TInt>(&format!("a{i}")).unwrap();
    }
    let progress: Vec<AtomicU64> = (0..callers).map(|_| AtomicU64::new(0)).collect();
    let stop = AtomicBool::new(false);
    let mut stalled = None;
    std::thread::scope(|s| {
        for p in progress.iter() {
            let cache = &cache;
            s.spawn(move || {
                for _ in 0..calls {
                    cache.hot_reload();
                    p.fetch_add(1, Ordering::SeqCst);
                }
            });
        }
        for l in 0..loaders {
            let cache = &cache;
            let mem = mem.clone();
            let stop = &stop;
            s.spawn(move || {
                let mut k = 0u64;
                while !stop.load(Ordering::Relaxed) {
                    let id = format!("l{l}.n{}", k % 64);
                    mem.write(&id, "x", b"5");
                    let _ = cache.load::<TInt>(&id);
                    let _ = cache.get_or_insert::<SVal>(&id, SVal(V::new(1, "goi")));
                    k += 1;
                    if k % 16 == 0 {
                        std::thread::yield_now();
                    }
                }
            });
        }
        if bursts {
            let mem = mem.clone();
            let stop = &stop;
            s.spawn(move || {
                let mut k = 0u64;
                while !stop.load(Ordering::Relaxed) {
                    let id = format!("a{}", k % 8);
                    mem.write(&id, "x", format!("{}", k).as_bytes());
                    mem.send(vec![OwnedDirEntry::File(id.as_str().into(), "x".into())]);
                    if k % 5 == 0 {
                        mem.send(vec![
                            OwnedDirEntry::File("a0".into(), "x".into()),
                            OwnedDirEntry::File("nope".into(), "x".into()),
                            OwnedDirEntry::Directory("".into()),
                        ]);
                    }
                    k += 1;
                    std::thread::sleep(Duration::from_micros(200));
                }
            });
        }
        // watchdog
        let mut last: Vec<u64> = vec![0; callers];
        let mut last_change = Instant::now();
        loop {
            std::thread::sleep(Duration::from_millis(20));
            let now: Vec<u64> = progress.iter().map(|p| p.load(Ordering::SeqCst)).collect();
            if now.iter().all(|&n| n >= calls) {
                break;
            }
            if now != last {
                last = now;
                last_change = Instant::now();
            } else if last_change.elapsed() > Duration::from_millis(STALL_MS) {
                stalled = Some(now);
                break;
            }
        }
        stop.store(true, Ordering::SeqCst);
        if let Some(p) = &stalled {
            // the blocked threads can never be joined: the caller reports and the process leaves
            STALL.lock().unwrap().replace(p.clone());
            (ON_STALL.lock().unwrap().take().unwrap())(p.clone());
        }
    });
    stalled
}

static STALL: std::sync::Mutex<Option<Vec<u64>>> = std::sync::Mutex::new(None);
#[allow(clippy::type_complexity)]
static ON_STALL: std::sync::Mutex<Option<Box<dyn FnOnce(Vec<u64>) + Send>>> = std::sync::Mutex::new(None);

/// One dependency shape: "n;a>cb,a>lb": node a looks node b up with `cached` (c) / `load` (l).
fn shape_child(spec: &str) -> i32 {
    trace_enable(false);
    let (n, edges) = spec.split_once(';').unwrap();
    let n: usize = n.parse().unwrap();
    let mut lines: Vec<Vec<String>> = vec![vec!["val 1".to_string()]; n];
    for e in edges.split(',').filter(|e| !e.is_empty()) {
        let (a, rest) = e.split_once('>').unwrap();
        let kind = &rest[..1];
        let b: usize = rest[1..].parse().unwrap();
        let a: usize = a.parse().unwrap();
        lines[a].push(format!("{} N n{}", if kind == "c" { "cached" } else { "load" }, b));
    }
    let mem = Mem::new(true);
    for (i, l) in lines.iter().enumerate() {
        mem.write(&format!("n{i}"), "n", l.join("\n").as_bytes());
    }
    let cache = AssetCache::with_source(mem.clone());
    // load every node twice so that `cached` look-ups see their targets
    for _ in 0..2 {
        for i in 0..n {
            let _ = cache.load::<TNode>(&format!("n{i}"));
        }
    }
    cache.hot_reload();
    for i in 0..n {
        mem.write(&format!("n{i}"), "n", (lines[i].join("\n") + "\nval 10").as_bytes());
        mem.send(vec![OwnedDirEntry::File(format!("n{i}").as_str().into(), "n".into())]);
        std::thread::sleep(Duration::from_millis(30));
        cache.hot_reload();
    }
    mem.send(
        (0..n)
            .map(|i| OwnedDirEntry::File(format!("n{i}").as_str().into(), "n".into()))
            .collect(),
    );
    std::thread::sleep(Duration::from_millis(30));
    cache.hot_reload();
    cache.hot_reload();
    0
}

/// A loader that panics while the reloader reloads it; later calls must still return.
fn panic_child() -> i32 {
    trace_enable(false);
    std::panic::set_hook(Box::new(|_| {}));
    let mem = Mem::new(true);
    mem.write("p", "n", b"val 1");
    mem.write("q", "x", b"3");
    let cache = AssetCache::with_source(mem.clone());
    cache.load::<TNode>("p").unwrap();
    cache.load::<TInt>("q").unwrap();
    mem.write("p", "n", b"panic");
    mem.send(vec![OwnedDirEntry::File("p".into(), "n".into())]);
    std::thread::sleep(Duration::from_millis(50));
    cache.hot_reload();
    // repair and retry
    mem.write("p", "n", b"val 2");
    mem.write("q", "x", b"4");
    mem.send(vec![
        OwnedDirEntry::File("p".into(), "n".into()),
        OwnedDirEntry::File("q".into(), "x".into()),
    ]);
    std::thread::sleep(Duration::from_millis(50));
    cache.hot_reload();
    let p = cache.load::<TNode>("p").unwrap().read().0.n;
    let q = cache.load::<TInt>("q").unwrap().read().0.n;
    if p == 2 && q == 4 {
        0
    } else {
        eprintln!("after repair: p={p} q={q}");
        7
    }
}

/// A reload pass in which the reloader itself loads `n` assets nobody has loaded before (each one
/// is announced to the reloader through the cache-message channel while the reloader is busy).
fn flood_child(n: usize) -> i32 {
    trace_enable(false);
    let mem = Mem::new(true);
    mem.write("big", "n", b"val 0");
    for i in 0..n {
        mem.write(&format!("f{i}"), "x", b"1");
    }
    let cache = AssetCache::with_source(mem.clone());
    cache.load::<TNode>("big").unwrap();
    let mut script = String::from("val 0");
    for i in 0..n {
        script.push_str(&format!("\nload I f{i}"));
    }
    mem.write("big", "n", script.as_bytes());
    mem.send(vec![OwnedDirEntry::File("big".into(), "n".into())]);
    std::thread::sleep(Duration::from_millis(50));
    cache.hot_reload();
    let v = cache.load::<TNode>("big").unwrap().read().0.n;
    if v == n as i64 {
        0
    } else {
        eprintln!("after the pass: big = {v}, expected {n}");
        7
    }
}

/// The reloader has gone (its source let go of the event sender, the thread left its loop):
/// `hot_reload` must still return, for one caller and for several at once.
fn gone_child(callers: usize) -> i32 {
    trace_enable(false);
    let mem = Mem::new(true);
    mem.write("q", "x", b"3");
    let cache = AssetCache::with_source(mem.clone());
    cache.load::<TInt>("q").unwrap();
    mem.write("q", "x", b"4");
    mem.send(vec![OwnedDirEntry::File("q".into(), "x".into())]);
    std::thread::sleep(Duration::from_millis(30));
    cache.hot_reload();
    mem.drop_sender();
    // the reloader notices the closed event channel and leaves
    std::thread::sleep(Duration::from_millis(300));
    std::thread::scope(|s| {
        for _ in 0..callers {
            s.spawn(|| {
                for _ in 0..20 {
                    cache.hot_reload();
                }
            });
        }
    });
    cache.hot_reload();
    0
}

/// A cache behind a `'static` reference is switched to eager reloading; `hot_reload` has nothing
/// left to do but must still return, for one caller and for several at once, before and after an
/// eager reload.
fn static_child(callers: usize) -> i32 {
    trace_enable(false);
    let mem = Mem::new(true);
    mem.write("q", "x", b"3");
    let cache: &'static AssetCache<Mem> = Box::leak(Box::new(AssetCache::with_source(mem.clone())));
    cache.load::<TInt>("q").unwrap();
    cache.hot_reload();
    cache.enhance_hot_reloading();
    std::thread::scope(|s| {
        for _ in 0..callers {
            s.spawn(|| {
                for _ in 0..20 {
                    cache.hot_reload();
                }
            });
        }
    });
    mem.write("q", "x", b"4");
    mem.send(vec![OwnedDirEntry::File("q".into(), "x".into())]);
    let t0 = Instant::now();
    while cache.load::<TInt>("q").unwrap().read().0.n != 4 {
        if t0.elapsed() > Duration::from_secs(5) {
            eprintln!("no eager reload within 5 s");
            return 7;
        }
        std::thread::sleep(Duration::from_millis(5));
    }
    cache.hot_reload();
    0
}

/// An asset whose destructor reads its own handle: the value a reload replaces is dropped by the
/// reloader; `hot_reload` must return and the new value must be in place.
struct SelfReader(i64);
static SELF_HANDLE: std::sync::OnceLock<&'static assets_manager::Handle<SelfReader>> = std::sync::OnceLock::new();
impl Drop for SelfReader {
    fn drop(&mut self) {
        if let Some(h) = SELF_HANDLE.get() {
            let _ = h.read().0;
        }
    }
}
struct SelfReaderLoader;
impl assets_manager::loader::Loader<SelfReader> for SelfReaderLoader {
    fn load(content: std::borrow::Cow<[u8]>, _: &str) -> Result<SelfReader, assets_manager::BoxedError> {
        Ok(SelfReader(std::str::from_utf8(&content)?.trim().parse()?))
    }
}
impl assets_manager::Asset for SelfReader {
    const EXTENSION: &'static str = "x";
    type Loader = SelfReaderLoader;
}
fn dropread_child() -> i32 {
    trace_enable(false);
    let mem = Mem::new(true);
    mem.write("s", "x", b"1");
    let cache: &'static AssetCache<Mem> = Box::leak(Box::new(AssetCache::with_source(mem.clone())));
    let h = cache.load::<SelfReader>("s").unwrap();
    let _ = SELF_HANDLE.set(h);
    for v in 2..5i64 {
        mem.write("s", "x", v.to_string().as_bytes());
        mem.send(vec![OwnedDirEntry::File("s".into(), "x".into())]);
        std::thread::sleep(Duration::from_millis(30));
        cache.hot_reload();
        if h.read().0 != v {
            eprintln!("after the pass: s = {}, expected {v}", h.read().0);
            return 7;
        }
    }
    0
}

/// A chain of `n` assets, each loading the next one; loaded bottom-up (no deep recursion on the
/// loading thread), then the bottom file is edited: one pass walks the whole chain and reloads every
/// asset of it, on the reloader thread.
fn deep_child(n: usize) -> i32 {
    trace_enable(false);
    let mem = Mem::new(true);
    for i in 0..n {
        let script = if i + 1 < n { format!("val 1\nload N c{}", i + 1) } else { "val 1".to_string() };
        mem.write(&format!("c{i}"), "n", script.as_bytes());
    }
    let cache = AssetCache::with_source(mem.clone());
    for i in (0..n).rev() {
        if cache.load::<TNode>(&format!("c{i}")).is_err() {
            eprintln!("load of c{i} failed");
            return 8;
        }
    }
    let top = cache.load::<TNode>("c0").unwrap().read().0.n;
    mem.write(&format!("c{}", n - 1), "n", b"val 2");
    mem.send(vec![OwnedDirEntry::File(format!("c{}", n - 1).into(), "n".into())]);
    std::thread::sleep(Duration::from_millis(50));
    cache.hot_reload();
    let now = cache.load::<TNode>("c0").unwrap().read().0.n;
    if now == top + 1 {
        0
    } else {
        eprintln!("after the pass: c0 = {now}, expected {}", top + 1);
        7
    }
}

pub fn child(a: &Args) -> i32 {
    match a.get("kind") {
        Some("deep") => deep_child(a.get("n").and_then(|x| x.parse().ok()).unwrap_or(1000)),
        Some("static") => static_child(a.get("n").and_then(|x| x.parse().ok()).unwrap_or(1)),
        Some("dropread") => dropread_child(),
        Some("gone") => gone_child(a.get("n").and_then(|x| x.parse().ok()).unwrap_or(1)),
        Some("flood") => flood_child(a.get("n").and_then(|x| x.parse().ok()).unwrap_or(100)),
        Some("shape") => shape_child(a.get("spec").unwrap_or("1;")),
        Some("panic") => panic_child(),
        _ => 2,
    }
}

/// Runs a child; Ok(()) if it exits 0 within the budget.
fn run_child(args: &[&str], budget: Duration) -> Result<(), String> {
    let exe = std::env::current_exe().unwrap();
    let mut c = std::process::Command::new(exe)
        .arg("answers-child")
        .args(args)
        .stdout(std::process::Stdio::null())
        .stderr(std::process::Stdio::piped())
        .spawn()
        .map_err(|e| e.to_string())?;
    let t0 = Instant::now();
    loop {
        match c.try_wait().map_err(|e| e.to_string())? {
            Some(st) => {
                let mut err = String::new();
                if let Some(mut e) = c.stderr.take() {
                    use std::io::Read;
                    let _ = e.read_to_string(&mut err);
                }
                return if st.success() {
                    Ok(())
                } else {
                    Err(format!(
                        "child ended with {st}: {}",
                        err.lines().filter(|l| !l.is_empty()).last().unwrap_or("")
                    ))
                };
            }
            None => {
                if t0.elapsed() > budget {
                    let _ = c.kill();
                    let _ = c.wait();
                    return Err(format!("child still running after {:?} (hang)", budget));
                }
                std::thread::sleep(Duration::from_millis(10));
            }
        }
    }
}

fn all_shapes(max_nodes: usize, rng: &mut Rng, extra_random: usize) -> Vec<String> {
    // every digraph of `cached` edges on <= max_nodes nodes (self loops included)
    let mut v = vec![];
    for n in 1..=max_nodes {
        let pairs: Vec<(usize, usize)> = (0..n).flat_map(|a| (0..n).map(move |b| (a, b))).collect();
        for mask in 0u32..(1 << pairs.len()) {
            let edges: Vec<String> = pairs
                .iter()
                .enumerate()
                .filter(|(i, _)| mask & (1 << i) != 0)
                .map(|(_, (a, b))| format!("{a}>c{b}"))
                .collect();
            v.push(format!("{n};{}", edges.join(",")));
        }
    }
    // larger random shapes mixing acyclic `load` edges (a -> b only for a < b) and arbitrary `cached` ones
    for _ in 0..extra_random {
        let n = 4 + rng.below(5) as usize;
        let mut edges = vec![];
        for a in 0..n {
            for b in 0..n {
                if a < b && rng.chance(1, 4) {
                    edges.push(format!("{a}>l{b}"));
                } else if rng.chance(1, 5) {
                    edges.push(format!("{a}>c{b}"));
                }
            }
        }
        v.push(format!("{n};{}", edges.join(",")));
    }
    v
}

pub fn run(a: &Args) {
    let mut rng = Rng::new(a.seed);
    let parts = a.get("parts").unwrap_or("shapes,panic,flood,conc,gone,deep,static,dropread").to_string();
    let mut evals = 0u64;
    let mut samples: Vec<String> = vec![];
    let mut distinct = std::collections::HashSet::new();

    // (B) shapes first (cheap, deterministic)
    let shapes = if a.thorough() {
        all_shapes(3, &mut rng, 200)
    } else {
        let mut s = all_shapes(2, &mut rng, 12);
        // a few 3-node shapes incl. the 3-cycle
        s.push("3;0>c1,1>c2,2>c0".into());
        s.push("3;0>c1,1>c0,2>c0,2>c2".into());
        s
    };
    let shapes: Vec<String> = if let Some(r) = &a.replay {
        replay_field(r, "shape").into_iter().collect()
    } else if parts.contains("shapes") {
        shapes
    } else {
        vec![]
    };
    let mut n_shapes = 0;
    'shapes: for chunk in shapes.chunks(16) {
        // 16 children at a time
        let results: Vec<(String, Result<(), String>)> = std::thread::scope(|s| {
            let hs: Vec<_> = chunk
                .iter()
                .map(|spec| {
                    s.spawn(move || {
                        (
                            spec.clone(),
                            run_child(&["--kind", "shape", "--spec", spec], Duration::from_secs(20)),
                        )
                    })
                })
                .collect();
            hs.into_iter().map(|h| h.join().unwrap()).collect()
        });
        for (spec, r) in results {
            evals += 1;
            n_shapes += 1;
            if spec.contains('>') {
                distinct.insert(format!("shape {spec}"));
            }
            if samples.len() < 3 && spec.len() > 8 {
                samples.push(format!("{{\"kind\": \"dependency shape\", \"shape\": {}}}", jstr(&spec)));
            }
            if let Err(e) = r {
                violation(
                    &a.out,
                    "hot_reload-crash-or-hang-on-shape",
                    format!(
                        "{{\"kind\": \"dependency shape (n;a>cb = node a looks b up with get_cached, l = load)\", \"shape\": {}, \"observed\": {}}}",
                        jstr(&spec),
                        jstr(&e)
                    ),
                );
                break 'shapes;
            }
        }
    }

    // (C) panicking loader during a reload
    let mut n_panic = 0;
    if parts.contains("panic")
        && (a.replay.is_none() || replay_field(a.replay.as_ref().unwrap(), "panic").is_some())
    {
        evals += 1;
        n_panic += 1;
        distinct.insert("panic-during-reload".to_string());
        if let Err(e) = run_child(&["--kind", "panic"], Duration::from_secs(15)) {
            violation(
                &a.out,
                "hot_reload-hangs-after-loader-panic",
                format!(
                    "{{\"kind\": \"loader panics during a reload; repair; retry\", \"panic\": true, \"observed\": {}}}",
                    jstr(&e)
                ),
            );
        }
    }

    // (E) hot_reload once the reloader thread has left
    if parts.contains("gone") && a.replay.is_none() {
        for n in [1usize, 4] {
            evals += 1;
            distinct.insert(format!("gone {n}"));
            if let Err(e) = run_child(&["--kind", "gone", "--n", &n.to_string()], Duration::from_secs(10)) {
                violation(
                    &a.out,
                    "hot_reload-hangs-after-reloader-exit",
                    format!(
                        "{{\"kind\": \"the source dropped its event sender, the reloader left; then {n} thread(s) call hot_reload\", \"observed\": {}}}",
                        jstr(&e)
                    ),
                );
                break;
            }
        }
    }

    // (G) hot_reload on a cache that reloads eagerly ('static mode)
    if parts.contains("static") && a.replay.is_none() {
        for n in [1usize, 4] {
            evals += 1;
            distinct.insert(format!("static {n}"));
            if let Err(e) = run_child(&["--kind", "static", "--n", &n.to_string()], Duration::from_secs(15)) {
                violation(
                    &a.out,
                    "hot_reload-stall",
                    format!(
                        "{{\"kind\": \"enhance_hot_reloading on a leaked cache; then {n} thread(s) call hot_reload\", \"observed\": {}}}",
                        jstr(&e)
                    ),
                );
                break;
            }
        }
    }

    // (H) a replaced value whose destructor reads its own handle
    if parts.contains("dropread") && a.replay.is_none() {
        evals += 1;
        distinct.insert("dropread".to_string());
        if let Err(e) = run_child(&["--kind", "dropread"], Duration::from_secs(15)) {
            violation(
                &a.out,
                "hot_reload-stall",
                format!(
                    "{{\"kind\": \"an asset whose destructor reads its own handle is reloaded three times\", \"observed\": {}}}",
                    jstr(&e)
                ),
            );
        }
    }

    // (F) a deep dependency chain walked and reloaded in one pass
    if parts.contains("deep") && a.replay.is_none() {
        let n = if a.thorough() { 5000 } else { 1500 };
        evals += 1;
        distinct.insert(format!("deep {n}"));
        if let Err(e) = run_child(&["--kind", "deep", "--n", &n.to_string()], Duration::from_secs(60)) {
            violation(
                &a.out,
                "hot_reload-stall",
                format!(
                    "{{\"kind\": \"a chain of {n} assets, each loading the next; the bottom one is edited\", \"chain\": {n}, \"observed\": {}}}",
                    jstr(&e)
                ),
            );
        }
    }

    // (D) a pass that discovers many new assets
    if parts.contains("flood") && a.replay.is_none() {
        let sizes: &[usize] = if a.thorough() { &[10, 100, 129, 1000, 5000] } else { &[100, 1000] };
        for n in sizes {
            evals += 1;
            distinct.insert(format!("flood {n}"));
            let case = format!("{{\"kind\": \"one reload pass loads {n} assets for the first time\", \"new_assets\": {n}");
            if samples.len() < 6 {
                samples.push(format!("{case}}}"));
            }
            if let Err(e) = run_child(&["--kind", "flood", "--n", &n.to_string()], Duration::from_secs(30)) {
                violation(&a.out, "hot_reload-stall", format!("{case}, \"observed\": {}}}", jstr(&e)));
                break;
            }
        }
    }

    // (A) concurrent callers
    let configs: Vec<(usize, u64, usize, bool)> = if a.thorough() {
        vec![
            (1, 20000, 0, false),
            (2, 100000, 0, false),
            (4, 100000, 1, true),
            (8, 100000, 2, true),
            (16, 50000, 2, true),
            (3, 100000, 0, true),
        ]
    } else {
        vec![(1, 500, 0, false), (2, 4000, 0, false), (4, 5000, 1, true), (8, 2500, 2, true)]
    };
    let mut n_conc = 0;
    let mut total_calls = 0u64;
    if parts.contains("conc")
        && (a.replay.is_none() || replay_field(a.replay.as_ref().unwrap(), "callers").is_some())
    {
        for (callers, calls, loaders, bursts) in configs {
            evals += 1;
            n_conc += 1;
            distinct.insert(format!("conc {callers} {loaders} {bursts}"));
            let case = format!(
                "{{\"kind\": \"concurrent hot_reload\", \"callers\": {callers}, \"calls_each\": {calls}, \"loader_threads\": {loaders}, \"event_bursts\": {bursts}");
            if samples.len() < 5 {
                samples.push(format!("{case}}}"));
            }
            // on a stall the blocked threads cannot be joined: report from inside and leave
            {
                let out = a.out.clone();
                let case2 = case.clone();
                let summary = summary_json(evals, &distinct, &samples, n_shapes, n_panic, n_conc, total_calls);
                *ON_STALL.lock().unwrap() = Some(Box::new(move |progress: Vec<u64>| {
                    violation(
                        &out,
                        "hot_reload-stall",
                        format!(
                            "{case2}, \"observed\": \"no caller progressed for {STALL_MS} ms\", \"calls_completed_per_caller\": {:?}}}",
                            progress
                        ),
                    );
                    std::fs::write(format!("{out}/answers.summary.json"), summary).unwrap();
                    std::process::exit(0);
                }));
            }
            if concurrent_scenario(callers, calls, loaders, bursts).is_none() {
                total_calls += callers as u64 * calls;
            }
        }
    }
    std::fs::write(
        format!("{}/answers.summary.json", a.out),
        summary_json(evals, &distinct, &samples, n_shapes, n_panic, n_conc, total_calls),
    )
    .unwrap();
}

fn replay_field(path: &str, key: &str) -> Option<String> {
    let txt = std::fs::read_to_string(path).ok()?;
    let pat = format!("\"{key}\": ");
    let i = txt.find(&pat)? + pat.len();
    let rest = &txt[i..];
    if let Some(stripped) = rest.strip_prefix('"') {
        Some(stripped[..stripped.find('"')?].to_string())
    } else {
        Some(rest[..rest.find(|c| c == ',' || c == '\n' || c == '}')?].trim().to_string())
    }
}

fn summary_json(
    evals: u64,
    distinct: &std::collections::HashSet<String>,
    samples: &[String],
    n_shapes: u64,
    n_panic: u64,
    n_conc: u64,
    total_calls: u64,
) -> String {
    format!(
        "{{\"engine\": \"answers\", \"evaluations\": {}, \"distinct_nontrivial\": {}, \"samples\": [{}], \"groups\": {{\"dependency_shapes_in_child_processes\": {}, \"panic_during_reload\": {}, \"concurrent_scenarios\": {}}}, \"concurrent_hot_reload_calls_completed\": {}, \"stall_threshold_ms\": {}}}",
        evals,
        distinct.len(),
        samples.join(", "),
        n_shapes,
        n_panic,
        n_conc,
        total_calls,
        STALL_MS
    )
}
