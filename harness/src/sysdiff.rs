//! `sysdiff`: seeded operation sequences on the real caches (AssetCache / LocalAssetCache / AnyCache
//! views) over the in-memory source, against `Ref.Sys.run` (coq/Ref/Sys.v).  Every operation's
//! result digest and its I/O trace (source reads, loader invocations with tokens, dropped tokens)
//! are printed as Coq terms; coq/Corr/SysCheck.v replays the same operations on the model.
//! Implementation-side monitor: between removals a key always yields the same handle address.
use crate::util::*;
use crate::world::*;
use assets_manager::{
    AnyCache, AssetCache, Compound, Directory, Error, Handle, LocalAssetCache, RecursiveDirectory, Storable,
};
use std::collections::HashMap;
use std::panic::{catch_unwind, AssertUnwindSafe};
use std::sync::Arc;

// ------------------------------------------------------------------------------------ types

#[derive(Clone, Copy, PartialEq, Eq, Hash, Debug)]
pub enum Ty {
    I,
    S,
    M,
    X,
    E,
    D,
    B,
    N,
    NS,
    A,
    AS,
    DI,
    RI,
    V,
}

impl Ty {
    pub fn coq(self) -> &'static str {
        match self {
            Ty::I => "TI",
            Ty::S => "TS",
            Ty::M => "TM",
            Ty::X => "TX",
            Ty::E => "TE",
            Ty::D => "TD",
            Ty::B => "TB",
            Ty::N => "TN",
            Ty::NS => "TNS",
            Ty::A => "TA",
            Ty::AS => "TAS",
            Ty::DI => "TDI",
            Ty::RI => "TRI",
            Ty::V => "TV",
        }
    }
    pub fn script(self) -> &'static str {
        match self {
            Ty::I => "I",
            Ty::S => "S",
            Ty::M => "M",
            Ty::X => "X",
            Ty::E => "E",
            Ty::D => "D",
            Ty::B => "B",
            Ty::N => "N",
            Ty::NS => "NS",
            Ty::A => "A",
            Ty::AS => "AS",
            Ty::DI => "DI",
            Ty::RI => "RI",
            Ty::V => "V",
        }
    }
}

pub fn zlit(n: i64) -> String {
    if n < 0 {
        format!("({})%Z", n)
    } else {
        format!("{}%Z", n)
    }
}

pub trait Dig {
    fn dig(&self) -> (String, u64);
}

fn vint(v: &V) -> (String, u64) {
    (format!("(VInt {} {})", zlit(v.n), cstr(&v.note)), v.tok.0)
}

macro_rules! dig_v {
    ($($t:ty),*) => { $( impl Dig for $t { fn dig(&self) -> (String, u64) { vint(&self.0) } } )* };
}
dig_v!(TInt, TIntS, TMulti, TNoExt, TEmptyExt, TDef, TNode, TNodeS, SVal);

impl Dig for TBytes {
    fn dig(&self) -> (String, u64) {
        let b: Vec<String> = self.1.iter().map(|x| x.to_string()).collect();
        (format!("(VBytes {})", clist(&b)), self.0.tok.0)
    }
}
impl<T: Dig> Dig for Arc<T> {
    fn dig(&self) -> (String, u64) {
        (**self).dig()
    }
}
impl Dig for Directory<TInt> {
    fn dig(&self) -> (String, u64) {
        let ids: Vec<String> = self.ids().map(|i| cstr(i)).collect();
        (format!("(VIds {})", clist(&ids)), 0)
    }
}
impl Dig for RecursiveDirectory<TInt> {
    fn dig(&self) -> (String, u64) {
        let ids: Vec<String> = self.ids().map(|i| cstr(i)).collect();
        (format!("(VIds {})", clist(&ids)), 0)
    }
}

macro_rules! with_compound {
    ($ty:expr, $T:ident => $body:expr, $else:expr) => {
        match $ty {
            Ty::I => { type $T = TInt; $body }
            Ty::S => { type $T = TIntS; $body }
            Ty::M => { type $T = TMulti; $body }
            Ty::X => { type $T = TNoExt; $body }
            Ty::E => { type $T = TEmptyExt; $body }
            Ty::D => { type $T = TDef; $body }
            Ty::B => { type $T = TBytes; $body }
            Ty::N => { type $T = TNode; $body }
            Ty::NS => { type $T = TNodeS; $body }
            Ty::A => { type $T = Arc<TInt>; $body }
            Ty::AS => { type $T = Arc<TIntS>; $body }
            Ty::DI => { type $T = Directory<TInt>; $body }
            Ty::RI => { type $T = RecursiveDirectory<TInt>; $body }
            Ty::V => $else,
        }
    };
}

macro_rules! with_storable {
    ($ty:expr, $T:ident => $body:expr) => {
        match $ty {
            Ty::I => { type $T = TInt; $body }
            Ty::S => { type $T = TIntS; $body }
            Ty::M => { type $T = TMulti; $body }
            Ty::X => { type $T = TNoExt; $body }
            Ty::E => { type $T = TEmptyExt; $body }
            Ty::D => { type $T = TDef; $body }
            Ty::B => { type $T = TBytes; $body }
            Ty::N => { type $T = TNode; $body }
            Ty::NS => { type $T = TNodeS; $body }
            Ty::A => { type $T = Arc<TInt>; $body }
            Ty::AS => { type $T = Arc<TIntS>; $body }
            Ty::DI => { type $T = Directory<TInt>; $body }
            Ty::RI => { type $T = RecursiveDirectory<TInt>; $body }
            Ty::V => { type $T = SVal; $body }
        }
    };
}

// ------------------------------------------------------------------------------------ front-ends

pub trait Front {
    fn load<T: Compound>(&self, id: &str) -> Result<&Handle<T>, Error>;
    fn load_owned<T: Compound>(&self, id: &str) -> Result<T, Error>;
    fn get_cached<T: Storable>(&self, id: &str) -> Option<&Handle<T>>;
    fn get_or_insert<T: Storable>(&self, id: &str, v: T) -> &Handle<T>;
    fn contains<T: Storable>(&self, id: &str) -> bool;
    fn remove<T: Storable>(&mut self, id: &str) -> bool;
    fn take<T: Storable>(&mut self, id: &str) -> Option<T>;
    fn clear(&mut self);
    fn any(&self) -> AnyCache<'_>;
    fn hot_reload(&self) {}
    fn enhance(&self) {}
}

/// A leaked hot cache: shared operations only (the reloader may hold the 'static reference).
pub struct Leaked(pub &'static AssetCache<Mem>);
impl Front for Leaked {
    fn load<T: Compound>(&self, id: &str) -> Result<&Handle<T>, Error> {
        self.0.load(id)
    }
    fn load_owned<T: Compound>(&self, id: &str) -> Result<T, Error> {
        self.0.load_owned(id)
    }
    fn get_cached<T: Storable>(&self, id: &str) -> Option<&Handle<T>> {
        self.0.get_cached(id)
    }
    fn get_or_insert<T: Storable>(&self, id: &str, v: T) -> &Handle<T> {
        self.0.get_or_insert(id, v)
    }
    fn contains<T: Storable>(&self, id: &str) -> bool {
        self.0.contains::<T>(id)
    }
    fn remove<T: Storable>(&mut self, _id: &str) -> bool {
        unreachable!("no exclusive operations on a leaked cache")
    }
    fn take<T: Storable>(&mut self, _id: &str) -> Option<T> {
        unreachable!("no exclusive operations on a leaked cache")
    }
    fn clear(&mut self) {
        unreachable!("no exclusive operations on a leaked cache")
    }
    fn any(&self) -> AnyCache<'_> {
        self.0.as_any_cache()
    }
    fn hot_reload(&self) {
        self.0.hot_reload()
    }
    fn enhance(&self) {
        self.0.enhance_hot_reloading()
    }
}

/// An owned hot cache (exclusive operations allowed, no enhance).
pub struct Hot(pub AssetCache<Mem>);
impl Front for Hot {
    fn load<T: Compound>(&self, id: &str) -> Result<&Handle<T>, Error> {
        self.0.load(id)
    }
    fn load_owned<T: Compound>(&self, id: &str) -> Result<T, Error> {
        self.0.load_owned(id)
    }
    fn get_cached<T: Storable>(&self, id: &str) -> Option<&Handle<T>> {
        self.0.get_cached(id)
    }
    fn get_or_insert<T: Storable>(&self, id: &str, v: T) -> &Handle<T> {
        self.0.get_or_insert(id, v)
    }
    fn contains<T: Storable>(&self, id: &str) -> bool {
        self.0.contains::<T>(id)
    }
    fn remove<T: Storable>(&mut self, id: &str) -> bool {
        self.0.remove::<T>(id)
    }
    fn take<T: Storable>(&mut self, id: &str) -> Option<T> {
        self.0.take::<T>(id)
    }
    fn clear(&mut self) {
        self.0.clear()
    }
    fn any(&self) -> AnyCache<'_> {
        self.0.as_any_cache()
    }
    fn hot_reload(&self) {
        self.0.hot_reload()
    }
}

macro_rules! front_impl {
    ($t:ty) => {
        impl Front for $t {
            fn load<T: Compound>(&self, id: &str) -> Result<&Handle<T>, Error> {
                <$t>::load(self, id)
            }
            fn load_owned<T: Compound>(&self, id: &str) -> Result<T, Error> {
                <$t>::load_owned(self, id)
            }
            fn get_cached<T: Storable>(&self, id: &str) -> Option<&Handle<T>> {
                <$t>::get_cached(self, id)
            }
            fn get_or_insert<T: Storable>(&self, id: &str, v: T) -> &Handle<T> {
                <$t>::get_or_insert(self, id, v)
            }
            fn contains<T: Storable>(&self, id: &str) -> bool {
                <$t>::contains::<T>(self, id)
            }
            fn remove<T: Storable>(&mut self, id: &str) -> bool {
                <$t>::remove::<T>(self, id)
            }
            fn take<T: Storable>(&mut self, id: &str) -> Option<T> {
                <$t>::take::<T>(self, id)
            }
            fn clear(&mut self) {
                <$t>::clear(self)
            }
            fn any(&self) -> AnyCache<'_> {
                <$t>::as_any_cache(self)
            }
        }
    };
}
front_impl!(AssetCache<Mem>);
front_impl!(LocalAssetCache<Mem>);

/// shared-reference operations go through the `AnyCache` view
pub struct ViaAny<F: Front>(pub F);
impl<F: Front> Front for ViaAny<F> {
    fn load<T: Compound>(&self, id: &str) -> Result<&Handle<T>, Error> {
        self.0.any().load(id)
    }
    fn load_owned<T: Compound>(&self, id: &str) -> Result<T, Error> {
        self.0.any().load_owned(id)
    }
    fn get_cached<T: Storable>(&self, id: &str) -> Option<&Handle<T>> {
        self.0.any().get_cached(id)
    }
    fn get_or_insert<T: Storable>(&self, id: &str, v: T) -> &Handle<T> {
        self.0.any().get_or_insert(id, v)
    }
    fn contains<T: Storable>(&self, id: &str) -> bool {
        self.0.any().contains::<T>(id)
    }
    fn remove<T: Storable>(&mut self, id: &str) -> bool {
        self.0.remove::<T>(id)
    }
    fn take<T: Storable>(&mut self, id: &str) -> Option<T> {
        self.0.take::<T>(id)
    }
    fn clear(&mut self) {
        self.0.clear()
    }
    fn any(&self) -> AnyCache<'_> {
        self.0.any()
    }
    fn hot_reload(&self) {
        self.0.hot_reload()
    }
    fn enhance(&self) {
        self.0.enhance()
    }
}

// ------------------------------------------------------------------------------------ ops

#[derive(Clone, Debug)]
pub enum Line {
    Val(i64),
    Load(Ty, String),
    Cached(Ty, String),
    Owned(Ty, String),
    NoRec(Box<Line>),
    Try(Box<Line>),
    ReadFile(String, String),
    ReadDir(String),
    Insert(String, i64),
    Thread(Box<Line>),
    Catch(Box<Line>),
    /// read a file / list a directory through the second cache: for the cache under test this is
    /// a constant (the model sees `val k`), it records nothing
    OtherFile(String),
    OtherDir(String),
    OtherLoad(String),
    Fail,
    Panic,
}

fn q(s: &str) -> String {
    if s.is_empty() {
        "_".into()
    } else {
        s.into()
    }
}

impl Line {
    pub fn text(&self) -> String {
        match self {
            Line::Val(k) => format!("val {k}"),
            Line::Load(t, id) => format!("load {} {}", t.script(), q(id)),
            Line::Cached(t, id) => format!("cached {} {}", t.script(), q(id)),
            Line::Owned(t, id) => format!("owned {} {}", t.script(), q(id)),
            Line::NoRec(l) => format!("norec {}", l.text()),
            Line::Try(l) => format!("try {}", l.text()),
            Line::ReadFile(id, ext) => format!("readfile {} {}", q(id), q(ext)),
            Line::ReadDir(id) => format!("readdir {}", q(id)),
            Line::Insert(id, k) => format!("insert {} {}", q(id), k),
            Line::Thread(l) => format!("thread {}", l.text()),
            Line::Catch(l) => format!("catch {}", l.text()),
            Line::OtherFile(id) => format!("orf {} x", q(id)),
            Line::OtherDir(id) => format!("ord {}", q(id)),
            Line::OtherLoad(id) => format!("oload {}", q(id)),
            Line::Fail => "fail".into(),
            Line::Panic => "panic".into(),
        }
    }
    pub fn coq(&self) -> String {
        match self {
            Line::Val(k) => format!("(LVal {})", zlit(*k)),
            Line::Load(t, id) => format!("(LLoad {} {})", t.coq(), cstr(id)),
            Line::Cached(t, id) => format!("(LCached {} {})", t.coq(), cstr(id)),
            Line::Owned(t, id) => format!("(LOwned {} {})", t.coq(), cstr(id)),
            Line::NoRec(l) => format!("(LNoRec {})", l.coq()),
            Line::Try(l) => format!("(LTry {})", l.coq()),
            Line::ReadFile(id, ext) => format!("(LReadFile {} {})", cstr(id), cstr(ext)),
            Line::ReadDir(id) => format!("(LReadDir {})", cstr(id)),
            Line::Insert(id, k) => format!("(LInsert {} {})", cstr(id), zlit(*k)),
            Line::Thread(l) => format!("(LThread {})", l.coq()),
            Line::Catch(l) => format!("(LCatch {})", l.coq()),
            Line::OtherFile(id) => format!("(LVal {})", zlit(other_file_len(id).unwrap() as i64)),
            Line::OtherDir(id) => format!("(LVal {})", zlit(other_dir_count(id).unwrap() as i64)),
            Line::OtherLoad(id) => format!("(LVal {})", zlit(other_asset_value(id).unwrap())),
            Line::Fail => "LFail".into(),
            Line::Panic => "LPanic".into(),
        }
    }
}

#[derive(Clone, Debug)]
pub enum Content {
    Bytes(Vec<u8>),
    Script(Vec<Line>),
}

impl Content {
    pub fn bytes(&self) -> Vec<u8> {
        match self {
            Content::Bytes(b) => b.clone(),
            Content::Script(ls) => ls.iter().map(|l| l.text()).collect::<Vec<_>>().join("\n").into_bytes(),
        }
    }
    pub fn coq(&self) -> String {
        match self {
            Content::Bytes(b) => format!(
                "(CBytes {})",
                clist(&b.iter().map(|x| x.to_string()).collect::<Vec<_>>())
            ),
            Content::Script(ls) => format!(
                "(CScript {} {})",
                self.bytes().len(),
                clist(&ls.iter().map(|l| l.coq()).collect::<Vec<_>>())
            ),
        }
    }
}

#[derive(Clone, Debug)]
pub enum Op {
    Load(Ty, String),
    LoadOwned(Ty, String),
    GetCached(Ty, String),
    GetOrInsert(Ty, String, i64),
    Contains(Ty, String),
    Remove(Ty, String),
    Take(Ty, String),
    Clear,
    Write(String, String, Content),
    Delete(String, String),
    Unreadable(String, String, String),
    Mkdir(String),
    Rmdir(String),
    DirUnreadable(String, String),
    SetFaults(Vec<(u64, String)>),
    /// entries (is_file, id, ext)
    Notify(Vec<(bool, String, String)>),
    HotReload,
    Enhance,
    ReloadId(Ty, String),
    PollGlobal(Ty, String),
    Watch(u64, Ty, String),
    PollWatcher(u64),
}

fn kcoq(k: &str) -> String {
    format!("K{k}")
}

impl Op {
    pub fn coq(&self) -> String {
        match self {
            Op::Load(t, id) => format!("OLoad {} {}", t.coq(), cstr(id)),
            Op::LoadOwned(t, id) => format!("OLoadOwned {} {}", t.coq(), cstr(id)),
            Op::GetCached(t, id) => format!("OGetCached {} {}", t.coq(), cstr(id)),
            Op::GetOrInsert(t, id, k) => format!("OGetOrInsert {} {} {}", t.coq(), cstr(id), zlit(*k)),
            Op::Contains(t, id) => format!("OContains {} {}", t.coq(), cstr(id)),
            Op::Remove(t, id) => format!("ORemove {} {}", t.coq(), cstr(id)),
            Op::Take(t, id) => format!("OTake {} {}", t.coq(), cstr(id)),
            Op::Clear => "OClear".into(),
            Op::Write(id, ext, c) => format!("OWrite {} {} {}", cstr(id), cstr(ext), c.coq()),
            Op::Delete(id, ext) => format!("ODelete {} {}", cstr(id), cstr(ext)),
            Op::Unreadable(id, ext, k) => format!("OUnreadable {} {} {}", cstr(id), cstr(ext), kcoq(k)),
            Op::Mkdir(id) => format!("OMkdir {}", cstr(id)),
            Op::Rmdir(id) => format!("ORmdir {}", cstr(id)),
            Op::DirUnreadable(id, k) => format!("ODirUnreadable {} {}", cstr(id), kcoq(k)),
            Op::SetFaults(l) => format!(
                "OSetFaults {}",
                clist(&l.iter().map(|(i, k)| format!("({}, {})", i, kcoq(k))).collect::<Vec<_>>())
            ),
            Op::Notify(es) => format!(
                "ONotify {}",
                clist(
                    &es.iter()
                        .map(|(f, id, ext)| if *f {
                            format!("DFile {} {}", cstr(id), cstr(ext))
                        } else {
                            format!("DDir {}", cstr(id))
                        })
                        .collect::<Vec<_>>()
                )
            ),
            Op::HotReload => "OHotReload".into(),
            Op::Enhance => "OEnhance".into(),
            Op::ReloadId(t, id) => format!("OReloadId {} {}", t.coq(), cstr(id)),
            Op::PollGlobal(t, id) => format!("OPollGlobal {} {}", t.coq(), cstr(id)),
            Op::Watch(w, t, id) => format!("OWatch {} {} {}", w, t.coq(), cstr(id)),
            Op::PollWatcher(w) => format!("OPollWatcher {w}"),
        }
    }
    /// ops whose Coq form carries the observed pass order as an extra argument
    pub fn takes_order(&self) -> bool {
        matches!(self, Op::Notify(_) | Op::HotReload | Op::Enhance)
    }
    pub fn json(&self) -> String {
        jstr(&match self {
            Op::Write(id, ext, c) => format!(
                "write {}.{} <- {:?}",
                id,
                ext,
                String::from_utf8_lossy(&c.bytes())
            ),
            other => other.coq(),
        })
    }
}

// ------------------------------------------------------------------------------------ observation

pub fn ev_coq(e: &Ev) -> String {
    match e {
        Ev::Read(id, ext, r) => match r.strip_prefix("ok:") {
            Some(len) => format!("EReadOk {} {} {}", cstr(id), cstr(ext), len),
            None => format!("ERead {} {} {}", cstr(id), cstr(ext), cstr(r.strip_prefix("err:").unwrap_or(r))),
        },
        Ev::ReadDir(id, r) => match r.strip_prefix("ok:") {
            Some(n) => format!("EReadDirOk {} {}", cstr(id), n),
            None => format!("EReadDir {} {}", cstr(id), cstr(r.strip_prefix("err:").unwrap_or(r))),
        },
        Ev::Made(t, w, k) => format!("EMade {} {} {}", cstr(t), cstr(w), k),
        Ev::Failed(t, w, c) => format!("EFailed {} {} {}", cstr(t), cstr(w), cstr(c)),
        Ev::Drop(k) => format!("EDrop {k}"),
    }
}

pub fn trace_coq(tr: &[TraceEv]) -> String {
    clist(&tr.iter().map(|t| ev_coq(&t.ev)).collect::<Vec<_>>())
}

fn err_coq(e: &Error) -> String {
    let (chain, leaf) = error_chain(e);
    // "other:<message>" leaves are all the same class for the model
    let leaf = if leaf.starts_with("other:") { "other".to_string() } else { leaf };
    format!(
        "(OutErr {{| e_chain := {}; e_leaf := {} |}})",
        clist(&chain.iter().map(|c| cstr(c)).collect::<Vec<_>>()),
        cstr(&leaf)
    )
}

/// handle identity monitor: key -> address while the entry lives
#[derive(Default)]
pub struct Identity {
    live: HashMap<(Ty, String), usize>,
    pub violations: Vec<String>,
}

impl Identity {
    fn see(&mut self, t: Ty, id: &str, addr: usize) {
        let k = (t, id.to_string());
        match self.live.get(&k) {
            Some(a) if *a != addr => self.violations.push(format!(
                "({:?}, {:?}) was at {:#x} and is now at {:#x} without a removal in between",
                t, id, a, addr
            )),
            Some(_) => {}
            None => {
                self.live.insert(k, addr);
            }
        }
    }
    fn forget(&mut self, t: Ty, id: &str) {
        self.live.remove(&(t, id.to_string()));
    }
    fn forget_all(&mut self) {
        self.live.clear();
    }
}

#[derive(Default)]
pub struct Ctx {
    /// C13 ledger: tokens not dropped exactly once by the time the cache is gone
    pub ledger_violations: Vec<String>,
    /// C02: a key of one type answered a query for another type
    pub key_violations: Vec<String>,
    /// C10: an entry whose type opts out of hot-reloading (behind a wrapper) was rewritten
    pub wrapper_violations: Vec<String>,
    /// rounds of the wrapper scenario in which witness and control followed the edit
    pub wrapper_rounds: u64,
    /// C05: an asset loaded, edited and notified while the reloader was busy stayed stale
    pub busy_violations: Vec<String>,
    pub ident: Identity,
    pub watchers: HashMap<u64, assets_manager::ReloadWatcher<'static>>,
    /// the Coq text of the pass order observed during the last op that takes one
    pub last_order: String,
}

fn type_table() -> Vec<(std::any::TypeId, Ty)> {
    use std::any::TypeId;
    vec![
        (TypeId::of::<TInt>(), Ty::I),
        (TypeId::of::<TIntS>(), Ty::S),
        (TypeId::of::<TMulti>(), Ty::M),
        (TypeId::of::<TNoExt>(), Ty::X),
        (TypeId::of::<TEmptyExt>(), Ty::E),
        (TypeId::of::<TDef>(), Ty::D),
        (TypeId::of::<TBytes>(), Ty::B),
        (TypeId::of::<TNode>(), Ty::N),
        (TypeId::of::<TNodeS>(), Ty::NS),
        (TypeId::of::<Arc<TInt>>(), Ty::A),
        (TypeId::of::<Arc<TIntS>>(), Ty::AS),
        (TypeId::of::<Directory<TInt>>(), Ty::DI),
        (TypeId::of::<RecursiveDirectory<TInt>>(), Ty::RI),
        (TypeId::of::<SVal>(), Ty::V),
    ]
}

fn drain_pass_log() -> String {
    let passes = std::mem::take(
        &mut *assets_manager::verif_hooks::PASS_LOG
            .lock()
            .unwrap_or_else(|e| e.into_inner()),
    );
    let table = type_table();
    let keys: Vec<String> = passes
        .into_iter()
        .flatten()
        .map(|(id, tid)| {
            let t = table.iter().find(|(x, _)| *x == tid).map(|(_, t)| t.coq()).unwrap_or("TW");
            format!("({}, {})", t, cstr(&id))
        })
        .collect();
    clist(&keys)
}

fn wait_counter(c: &std::sync::atomic::AtomicUsize, target: usize) -> bool {
    wait_counter_for(c, target, 10_000)
}

fn wait_counter_for(c: &std::sync::atomic::AtomicUsize, target: usize, ms: u64) -> bool {
    let t0 = std::time::Instant::now();
    while c.load(std::sync::atomic::Ordering::SeqCst) < target {
        if t0.elapsed() > std::time::Duration::from_millis(ms) {
            return false;
        }
        std::thread::yield_now();
    }
    true
}

pub fn apply<F: Front>(fe: &mut F, mem: &Mem, op: &Op, ctx: &mut Ctx) -> String {
    let _ = take_trace();
    let out = match op {
        Op::Load(t, id) => with_compound!(*t, T => {
            match catch_unwind(AssertUnwindSafe(|| fe.load::<T>(id).map(|h| {
                let g = h.read();
                (g.dig(), h as *const Handle<T> as usize)
            }))) {
                Ok(Ok(((v, tok), addr))) => { ctx.ident.see(*t, id, addr); format!("(OutVal {} {})", v, tok) }
                Ok(Err(e)) => err_coq(&e),
                Err(_) => "OutPanic".to_string(),
            }
        }, "OutNone".to_string()),
        Op::LoadOwned(t, id) => with_compound!(*t, T => {
            match catch_unwind(AssertUnwindSafe(|| fe.load_owned::<T>(id).map(|v| v.dig()))) {
                Ok(Ok((v, tok))) => format!("(OutVal {} {})", v, tok),
                Ok(Err(e)) => err_coq(&e),
                Err(_) => "OutPanic".to_string(),
            }
        }, "OutNone".to_string()),
        Op::GetCached(t, id) => with_storable!(*t, T => {
            match fe.get_cached::<T>(id) {
                Some(h) => {
                    ctx.ident.see(*t, id, h as *const Handle<T> as usize);
                    let (v, tok) = h.read().dig();
                    format!("(OutVal {} {})", v, tok)
                }
                None => "OutNone".to_string(),
            }
        }),
        Op::GetOrInsert(t, id, k) => match t {
            Ty::I => {
                let h = fe.get_or_insert::<TInt>(id, TInt(V::new(*k, "insert")));
                ctx.ident.see(*t, id, h as *const Handle<TInt> as usize);
                let (v, tok) = h.read().dig();
                format!("(OutVal {} {})", v, tok)
            }
            Ty::S => {
                let h = fe.get_or_insert::<TIntS>(id, TIntS(V::new(*k, "insert")));
                ctx.ident.see(*t, id, h as *const Handle<TIntS> as usize);
                let (v, tok) = h.read().dig();
                format!("(OutVal {} {})", v, tok)
            }
            _ => {
                let h = fe.get_or_insert::<SVal>(id, SVal(V::new(*k, "insert")));
                ctx.ident.see(Ty::V, id, h as *const Handle<SVal> as usize);
                let (v, tok) = h.read().dig();
                format!("(OutVal {} {})", v, tok)
            }
        },
        Op::Contains(t, id) => with_storable!(*t, T => format!("(OutBool {})", cbool(fe.contains::<T>(id)))),
        Op::Remove(t, id) => {
            ctx.watchers.clear();
            ctx.ident.forget(*t, id);
            with_storable!(*t, T => format!("(OutBool {})", cbool(fe.remove::<T>(id))))
        }
        Op::Take(t, id) => {
            ctx.watchers.clear();
            ctx.ident.forget(*t, id);
            with_storable!(*t, T => match fe.take::<T>(id) {
                Some(v) => { let (d, tok) = v.dig(); format!("(OutVal {} {})", d, tok) }
                None => "OutNone".to_string(),
            })
        }
        Op::Clear => {
            ctx.watchers.clear();
            ctx.ident.forget_all();
            fe.clear();
            "OutUnit".to_string()
        }
        Op::Write(id, ext, c) => {
            mem.write(id, ext, &c.bytes());
            "OutUnit".to_string()
        }
        Op::Delete(id, ext) => {
            mem.set_file(id, ext, None);
            "OutUnit".to_string()
        }
        Op::Unreadable(id, ext, k) => {
            mem.set_file(id, ext, Some(FileState::Unreadable(kind_of_name(k))));
            "OutUnit".to_string()
        }
        Op::Mkdir(id) => {
            mem.set_dir(id, Some(None));
            "OutUnit".to_string()
        }
        Op::Rmdir(id) => {
            mem.set_dir(id, None);
            "OutUnit".to_string()
        }
        Op::DirUnreadable(id, k) => {
            mem.set_dir(id, Some(Some(kind_of_name(k))));
            "OutUnit".to_string()
        }
        Op::SetFaults(l) => {
            mem.set_faults(l.iter().map(|(i, k)| (*i, kind_of_name(k))).collect());
            "OutUnit".to_string()
        }
        Op::Notify(es) => {
            use assets_manager::source::OwnedDirEntry;
            let _ = drain_pass_log();
            let target = assets_manager::verif_hooks::EVENTS_HANDLED.load(std::sync::atomic::Ordering::SeqCst) + 1;
            let evs: Vec<OwnedDirEntry> = es
                .iter()
                .map(|(f, id, ext)| if *f {
                    OwnedDirEntry::File(id.as_str().into(), ext.as_str().into())
                } else {
                    OwnedDirEntry::Directory(id.as_str().into())
                })
                .collect();
            if !evs.is_empty() && mem.send(evs) {
                if !wait_counter(&assets_manager::verif_hooks::EVENTS_HANDLED, target) {
                    eprintln!("infrastructure: event batch not handled within 10 s");
                    std::process::exit(3);
                }
            }
            ctx.last_order = drain_pass_log();
            "(OutBool true)".to_string()
        }
        Op::HotReload => {
            let _ = drain_pass_log();
            fe.hot_reload();
            ctx.last_order = drain_pass_log();
            "(OutBool true)".to_string()
        }
        Op::Enhance => {
            let _ = drain_pass_log();
            let target = assets_manager::verif_hooks::PASSES_RUN.load(std::sync::atomic::Ordering::SeqCst) + 1;
            fe.enhance();
            let patience = if ctx.busy_violations.is_empty() { 10_000 } else { 100 };
            if !wait_counter_for(&assets_manager::verif_hooks::PASSES_RUN, target, patience) {
                // enhance_hot_reloading applies what is pending: the reloader runs a pass when it
                // takes the 'static reference (also when nothing is pending)
                if ctx.busy_violations.len() < 5 {
                    ctx.busy_violations.push("enhance_hot_reloading: the reloader ran no pass within 10 s of the switch to 'static mode (changes notified before the switch stay unapplied)".to_string());
                }
            }
            ctx.last_order = drain_pass_log();
            "(OutBool true)".to_string()
        }
        Op::ReloadId(t, id) => with_storable!(*t, T => match fe.get_cached::<T>(id) {
            Some(h) => format!("(OutRid {})", assets_manager::verif_hooks::reload_id_raw(h.last_reload_id())),
            None => "OutNone".to_string(),
        }),
        Op::PollGlobal(t, id) => with_storable!(*t, T => match fe.get_cached::<T>(id) {
            Some(h) => format!("(OutBool {})", cbool(h.reloaded_global())),
            None => "OutNone".to_string(),
        }),
        Op::Watch(w, t, id) => with_storable!(*t, T => match fe.get_cached::<T>(id) {
            Some(h) => {
                let watcher = h.reload_watcher();
                // kept across operations: only generated in histories without exclusive operations
                let watcher: assets_manager::ReloadWatcher<'static> = unsafe { std::mem::transmute(watcher) };
                ctx.watchers.insert(*w, watcher);
                "(OutBool true)".to_string()
            }
            None => "OutNone".to_string(),
        }),
        Op::PollWatcher(w) => match ctx.watchers.get_mut(w) {
            Some(watcher) => format!("(OutBool {})", cbool(watcher.reloaded())),
            None => "OutNone".to_string(),
        },
    };
    let tr = take_trace();
    format!("({}, {})", out, trace_coq(&tr))
}

// ------------------------------------------------------------------------------------ generation

pub const FILE_IDS: &[&str] = &["a", "b", "c", "d.a", "d.b", "d.e.a", "q.a", "d.an_id_longer_than_sixteen_bytes"];
pub const DIR_IDS: &[&str] = &["", "d", "d.e", "q"];
pub const NODE_IDS: &[&str] = &["n0", "n1", "n2", "n3"];

fn gen_int_content(rng: &mut Rng) -> Vec<u8> {
    match rng.below(26) {
        24 => b"!nf".to_vec(),
        25 => b"!id 7".to_vec(),
        0 => b"zz".to_vec(),
        1 => b"".to_vec(),
        2 => b"1.5".to_vec(),
        3 => vec![0xff, 0xfe, b'1'],
        4 => b"12a".to_vec(),
        5 => format!("  {}\n", rng.below(50)).into_bytes(),
        6 => format!("-{}", rng.below(50)).into_bytes(),
        7 => format!("+{}", rng.below(50)).into_bytes(),
        8 => format!("\t{} \r\n", rng.below(1000)).into_bytes(),
        _ => format!("{}", rng.below(100)).into_bytes(),
    }
}

fn gen_ty(rng: &mut Rng) -> Ty {
    *rng.pick(&[
        Ty::I, Ty::I, Ty::I, Ty::S, Ty::M, Ty::M, Ty::X, Ty::E, Ty::D, Ty::D, Ty::B, Ty::N, Ty::N, Ty::N,
        Ty::NS, Ty::A, Ty::AS, Ty::DI, Ty::DI, Ty::RI, Ty::RI,
    ])
}

fn id_for(rng: &mut Rng, t: Ty) -> String {
    match t {
        Ty::N | Ty::NS => rng.pick(NODE_IDS).to_string(),
        Ty::DI | Ty::RI => {
            if rng.chance(1, 10) {
                "nodir".to_string()
            } else {
                rng.pick(DIR_IDS).to_string()
            }
        }
        _ => {
            if rng.chance(1, 12) {
                "missing".to_string()
            } else {
                rng.pick(FILE_IDS).to_string()
            }
        }
    }
}

fn exts_of(t: Ty) -> &'static [&'static str] {
    match t {
        Ty::I | Ty::S | Ty::A | Ty::AS => &["x"],
        Ty::M => &["p", "q", "r"],
        Ty::E => &[""],
        Ty::D => &["d", "e"],
        Ty::B => &["b"],
        Ty::N | Ty::NS => &["n"],
        _ => &[],
    }
}

fn gen_line(rng: &mut Rng, node_idx: usize, depth: u32, threads_ok: bool, spicy: bool) -> Line {
    let r = rng.below(if spicy { 34 } else { 29 });
    match r {
        0 => {
            if rng.chance(1, 3) {
                Line::OtherLoad(rng.pick(OTHER_FILES).to_string())
            } else if rng.chance(1, 2) {
                Line::OtherFile(rng.pick(OTHER_FILES).to_string())
            } else {
                Line::OtherDir(rng.pick(&["", "d", "d.e", "q"]).to_string())
            }
        }
        1..=3 => Line::Val(rng.below(20) as i64),
        4..=10 => {
            // loads only go to nodes with a higher index (no load cycles)
            let t = gen_ty(rng);
            match t {
                Ty::N | Ty::NS => {
                    if node_idx + 1 < NODE_IDS.len() {
                        let j = node_idx + 1 + rng.below((NODE_IDS.len() - node_idx - 1) as u64) as usize;
                        Line::Load(t, NODE_IDS[j].to_string())
                    } else {
                        Line::Val(3)
                    }
                }
                _ => Line::Load(t, id_for(rng, t)),
            }
        }
        11..=14 => {
            let t = *rng.pick(&[Ty::I, Ty::S, Ty::M, Ty::D, Ty::N, Ty::NS, Ty::V]);
            let id = if t == Ty::V { rng.pick(&["v0", "v1", "a", "a_value_id_longer_than_sixteen_bytes", "v1.", ".v0"]).to_string() } else { id_for(rng, t) };
            Line::Cached(t, id)
        }
        15..=17 => {
            let t = *rng.pick(&[Ty::I, Ty::S, Ty::M, Ty::D]);
            Line::Owned(t, id_for(rng, t))
        }
        18..=19 if depth < 2 => Line::Try(Box::new(gen_line(rng, node_idx, depth + 1, threads_ok, spicy))),
        20..=21 if depth < 2 => Line::NoRec(Box::new(gen_line(rng, node_idx, depth + 1, threads_ok, spicy))),
        22..=23 => {
            let t = *rng.pick(&[Ty::I, Ty::M, Ty::D, Ty::B]);
            Line::ReadFile(id_for(rng, t), rng.pick(exts_of(t)).to_string())
        }
        24..=25 => Line::ReadDir(id_for(rng, Ty::DI)),
        26..=27 => Line::Insert(rng.pick(&["v0", "v1", "a", "a_value_id_longer_than_sixteen_bytes", "v1.", ".v0"]).to_string(), rng.below(30) as i64),
        28 if threads_ok && depth < 2 => Line::Thread(Box::new(gen_line(rng, node_idx, depth + 1, false, spicy))),
        29..=30 => Line::Fail,
        31 => Line::Panic,
        32..=33 if depth < 2 => Line::Catch(Box::new(gen_line(rng, node_idx, depth + 1, threads_ok, true))),
        _ => Line::Val(1),
    }
}

fn gen_script(rng: &mut Rng, node_idx: usize, threads_ok: bool, spicy: bool) -> Content {
    let n = 1 + rng.below(4);
    Content::Script((0..n).map(|_| gen_line(rng, node_idx, 0, threads_ok, spicy)).collect())
}

fn gen_write(rng: &mut Rng, threads_ok: bool, spicy: bool) -> Op {
    let t = *rng.pick(&[Ty::I, Ty::I, Ty::M, Ty::M, Ty::D, Ty::E, Ty::B, Ty::N, Ty::N]);
    let id = id_for(rng, t);
    let ext = rng.pick(exts_of(t)).to_string();
    match t {
        Ty::N => {
            let idx = NODE_IDS.iter().position(|x| *x == id).unwrap_or(0);
            Op::Write(id, ext, gen_script(rng, idx, threads_ok, spicy))
        }
        Ty::B => {
            let len = *rng.pick(&[0u64, 1, 3, 17, 300]);
            Op::Write(id, ext, Content::Bytes((0..len).map(|_| rng.below(256) as u8).collect()))
        }
        _ => Op::Write(id, ext, Content::Bytes(gen_int_content(rng))),
    }
}

#[derive(Clone, Copy)]
pub struct GenCfg {
    pub threads_ok: bool,
    pub spicy: bool,
    /// remove / take / clear may be generated
    pub mutable: bool,
    /// the cache has a reloader
    pub hot: bool,
    /// the cache is leaked: enhance_hot_reloading may be generated
    pub leaked: bool,
}

fn goi(rng: &mut Rng) -> Op {
    let t = *rng.pick(&[Ty::V, Ty::V, Ty::I, Ty::S]);
    let id = if t == Ty::V { rng.pick(&["v0", "v1", "a", "a_value_id_longer_than_sixteen_bytes", "v1.", ".v0"]).to_string() } else { rng.pick(FILE_IDS).to_string() };
    Op::GetOrInsert(t, id, rng.below(30) as i64)
}

/// the events a filesystem watcher would send for an edit of (id, ext), plus noise
fn notify_for(rng: &mut Rng, id: &str, ext: &str, with_parent: bool) -> Op {
    let mut es = vec![(true, id.to_string(), ext.to_string())];
    if with_parent {
        if let Some(p) = parent_id(id) {
            es.push((false, p.to_string(), String::new()));
        }
    }
    if rng.chance(1, 4) {
        es.push(es[0].clone()); // duplicate
    }
    if rng.chance(1, 4) {
        es.push((true, "nobody".into(), "x".into())); // unknown entry
    }
    if rng.chance(1, 6) {
        es.push((true, rng.pick(FILE_IDS).to_string(), "x".into())); // unrelated, possibly known
    }
    if rng.chance(1, 3) {
        let k = rng.below(es.len() as u64) as usize;
        es.rotate_left(k);
    }
    Op::Notify(es)
}

fn observe_some(rng: &mut Rng, ops: &mut Vec<Op>, loaded: &[(Ty, String)], watchers: u64) {
    for (t, id) in loaded {
        if rng.chance(1, 2) {
            ops.push(Op::GetCached(*t, id.clone()));
        }
        if rng.chance(1, 2) {
            ops.push(Op::ReloadId(*t, id.clone()));
        }
        if rng.chance(1, 4) {
            ops.push(Op::PollGlobal(*t, id.clone()));
        }
    }
    for w in 0..watchers {
        if rng.chance(1, 2) {
            ops.push(Op::PollWatcher(w));
        }
    }
}

pub fn gen_ops(rng: &mut Rng, len: usize, cfg: GenCfg) -> Vec<Op> {
    let GenCfg { threads_ok, spicy, mutable, hot, leaked } = cfg;
    let mut ops = vec![];
    // initial population
    for d in DIR_IDS {
        if !d.is_empty() && rng.chance(3, 4) {
            ops.push(Op::Mkdir(d.to_string()));
        }
    }
    // mostly-valid population: most ids have a loadable "x" file, some have files for the other types
    for id in FILE_IDS {
        if rng.chance(7, 10) {
            ops.push(Op::Write(id.to_string(), "x".into(), Content::Bytes(format!("{}", rng.below(100)).into_bytes())));
        }
        for ext in ["p", "q", "r", "d", "e", "", "b"] {
            if rng.chance(1, 4) {
                ops.push(Op::Write(id.to_string(), ext.into(), Content::Bytes(gen_int_content(rng))));
            }
        }
    }
    let npop = rng.below(4);
    for _ in 0..npop {
        ops.push(gen_write(rng, threads_ok, spicy));
    }
    for (i, n) in NODE_IDS.iter().enumerate() {
        if rng.chance(4, 5) {
            ops.push(Op::Write(n.to_string(), "n".into(), gen_script(rng, i, threads_ok, spicy)));
        }
    }
    let npop = ops.len();
    let mut loaded: Vec<(Ty, String)> = vec![];
    let mut watchers = 0u64;
    let mut enhanced = false;
    while ops.len() < len + npop {
        let r = rng.below(100);
        let t = gen_ty(rng);
        if hot && r < 30 {
            // an edit, (usually) its notification, (usually) a pass, then a look at the cache;
            // mostly of a file some loaded asset was made from
            let w = if !loaded.is_empty() && rng.chance(4, 5) {
                let (t, id) = rng.pick(&loaded).clone();
                match t {
                    Ty::N | Ty::NS => {
                        let idx = NODE_IDS.iter().position(|x| *x == id).unwrap_or(0);
                        Op::Write(id, "n".into(), gen_script(rng, idx, threads_ok, spicy))
                    }
                    Ty::DI | Ty::RI => {
                        // a file inside the directory
                        let f = if id.is_empty() { "zz".to_string() } else { format!("{id}.zz") };
                        Op::Write(f, "x".into(), Content::Bytes(b"1".to_vec()))
                    }
                    Ty::V | Ty::X => gen_write(rng, threads_ok, spicy),
                    _ => {
                        let ext = rng.pick(exts_of(t)).to_string();
                        let c = if rng.chance(5, 6) { format!("{}", rng.below(100)).into_bytes() } else { gen_int_content(rng) };
                        Op::Write(id, ext, Content::Bytes(c))
                    }
                }
            } else {
                gen_write(rng, threads_ok, spicy)
            };
            let (id, ext) = match &w {
                Op::Write(id, ext, _) => (id.clone(), ext.clone()),
                _ => unreachable!(),
            };
            let kind = rng.below(10);
            match kind {
                0 => {
                    ops.push(Op::Delete(id.clone(), ext.clone()));
                    if rng.chance(5, 6) {
                        ops.push(notify_for(rng, &id, &ext, true));
                    }
                }
                1 => {
                    let d = rng.pick(&DIR_IDS[1..]).to_string();
                    ops.push(if rng.chance(1, 2) { Op::Mkdir(d.clone()) } else { Op::Rmdir(d.clone()) });
                    let mut es = vec![(false, d.clone(), String::new())];
                    if let Some(p) = parent_id(&d) {
                        es.push((false, p.to_string(), String::new()));
                    }
                    ops.push(Op::Notify(es));
                }
                _ => {
                    ops.push(w);
                    if rng.chance(5, 6) {
                        let wp = rng.chance(1, 2);
                        ops.push(notify_for(rng, &id, &ext, wp));
                    }
                }
            }
            if rng.chance(3, 4) {
                ops.push(Op::HotReload);
            }
            observe_some(rng, &mut ops, &loaded, watchers);
            continue;
        }
        if hot && r >= 30 && r < 34 {
            // get_or_insert on a key of a reloadable type whose file exists, possibly after the same
            // key was loaded / load_owned / removed, followed by an edit of that file and a pass
            let t = *rng.pick(&[Ty::I, Ty::I, Ty::S, Ty::V]);
            let id = if t == Ty::V { "a".to_string() } else { rng.pick(FILE_IDS).to_string() };
            match rng.below(4) {
                0 if t != Ty::V => ops.push(Op::Load(t, id.clone())),
                1 if t != Ty::V => ops.push(Op::LoadOwned(t, id.clone())),
                _ => {}
            }
            if mutable {
                match rng.below(4) {
                    0 => ops.push(Op::Remove(t, id.clone())),
                    1 => ops.push(Op::Take(t, id.clone())),
                    2 if rng.chance(1, 3) => ops.push(Op::Clear),
                    _ => {}
                }
            }
            ops.push(Op::GetOrInsert(t, id.clone(), 90 + rng.below(9) as i64));
            if !loaded.contains(&(t, id.clone())) && loaded.len() < 8 {
                loaded.push((t, id.clone()));
            }
            ops.push(Op::Write(id.clone(), "x".into(), Content::Bytes(format!("{}", rng.below(50)).into_bytes())));
            ops.push(notify_for(rng, &id, "x", false));
            ops.push(Op::HotReload);
            observe_some(rng, &mut ops, &loaded, watchers);
            continue;
        }
        if hot && r >= 34 && r < 38 {
            // a batch that rewires one node to depend on another node edited in the same batch
            let i = rng.below((NODE_IDS.len() - 1) as u64) as usize;
            let j = i + 1 + rng.below((NODE_IDS.len() - 1 - i) as u64) as usize;
            let (ni, nj) = (NODE_IDS[i].to_string(), NODE_IDS[j].to_string());
            for n in [&ni, &nj] {
                if !loaded.contains(&(Ty::N, n.clone())) {
                    ops.push(Op::Load(Ty::N, n.clone()));
                    if loaded.len() < 8 {
                        loaded.push((Ty::N, n.clone()));
                    }
                }
            }
            ops.push(Op::Write(
                ni.clone(),
                "n".into(),
                Content::Script(vec![Line::Val(10 + rng.below(5) as i64), Line::Load(Ty::N, nj.clone())]),
            ));
            ops.push(Op::Write(nj.clone(), "n".into(), Content::Script(vec![Line::Val(rng.below(9) as i64)])));
            let mut es = vec![(true, ni.clone(), "n".to_string()), (true, nj.clone(), "n".to_string())];
            if rng.chance(1, 2) {
                es.reverse();
            }
            ops.push(Op::Notify(es));
            ops.push(Op::HotReload);
            ops.push(Op::GetCached(Ty::N, ni));
            ops.push(Op::GetCached(Ty::N, nj));
            continue;
        }
        if hot && r >= 46 && r < 50 {
            // recording must resume after a no_record block / helper thread, however the block ended
            let i = rng.below(NODE_IDS.len() as u64) as usize;
            let ni = NODE_IDS[i].to_string();
            let fid = rng.pick(FILE_IDS).to_string();
            let block = match rng.below(5) {
                0 => Line::Catch(Box::new(Line::NoRec(Box::new(Line::Panic)))),
                1 => Line::Try(Box::new(Line::NoRec(Box::new(Line::Fail)))),
                2 => Line::NoRec(Box::new(Line::ReadFile(fid.clone(), "x".into()))),
                3 if threads_ok => Line::Catch(Box::new(Line::Thread(Box::new(Line::Panic)))),
                _ => Line::Try(Box::new(Line::NoRec(Box::new(Line::Load(Ty::I, "missing".into()))))),
            };
            let after = if rng.chance(1, 2) { Line::Load(Ty::I, fid.clone()) } else { Line::ReadFile(fid.clone(), "x".into()) };
            ops.push(Op::Write(fid.clone(), "x".into(), Content::Bytes(format!("{}", rng.below(50)).into_bytes())));
            ops.push(Op::Write(ni.clone(), "n".into(), Content::Script(vec![Line::Val(1), block, after])));
            if mutable {
                ops.push(Op::Remove(Ty::N, ni.clone()));
            }
            ops.push(Op::Load(Ty::N, ni.clone()));
            if !loaded.contains(&(Ty::N, ni.clone())) && loaded.len() < 8 {
                loaded.push((Ty::N, ni.clone()));
            }
            ops.push(Op::Write(fid.clone(), "x".into(), Content::Bytes(format!("{}", 50 + rng.below(50)).into_bytes())));
            ops.push(notify_for(rng, &fid, "x", false));
            ops.push(Op::HotReload);
            ops.push(Op::GetCached(Ty::N, ni));
            continue;
        }
        if hot && !mutable && r >= 38 && r < 42 && !loaded.is_empty() && watchers < 4 {
            let (t, id) = rng.pick(&loaded).clone();
            ops.push(Op::Watch(watchers, t, id));
            watchers += 1;
            continue;
        }
        if leaked && !enhanced && r >= 42 && r < 46 && rng.chance(1, 3) {
            ops.push(Op::Enhance);
            enhanced = true;
            continue;
        }
        let op = match r {
            0..=44 => {
                let id = id_for(rng, t);
                if !loaded.contains(&(t, id.clone())) && loaded.len() < 8 {
                    loaded.push((t, id.clone()));
                }
                Op::Load(t, id)
            }
            45..=50 => {
                let t = if rng.chance(1, 6) { Ty::V } else { t };
                let id = if t == Ty::V { rng.pick(&["v0", "v1", "a", "a_value_id_longer_than_sixteen_bytes", "v1.", ".v0"]).to_string() } else { id_for(rng, t) };
                Op::GetCached(t, id)
            }
            51..=54 => {
                let t = *rng.pick(&[Ty::I, Ty::S, Ty::M, Ty::D, Ty::N, Ty::B, Ty::DI]);
                Op::LoadOwned(t, id_for(rng, t))
            }
            55..=59 => {
                let o = goi(rng);
                if let Op::GetOrInsert(t, id, _) = &o {
                    if !loaded.contains(&(*t, id.clone())) && loaded.len() < 8 {
                        loaded.push((*t, id.clone()));
                    }
                }
                o
            }
            60..=62 => Op::Contains(t, id_for(rng, t)),
            63..=68 if mutable => Op::Remove(t, id_for(rng, t)),
            69..=72 if mutable => {
                let t = if rng.chance(1, 5) { Ty::V } else { t };
                let id = if t == Ty::V { rng.pick(&["v0", "v1", "a", "a_value_id_longer_than_sixteen_bytes", "v1.", ".v0"]).to_string() } else { id_for(rng, t) };
                Op::Take(t, id)
            }
            73 if mutable => Op::Clear,
            74..=86 => gen_write(rng, threads_ok, spicy),
            87..=90 => {
                let t = *rng.pick(&[Ty::I, Ty::M, Ty::D, Ty::N]);
                Op::Delete(id_for(rng, t), rng.pick(exts_of(t)).to_string())
            }
            91..=92 => {
                let t = *rng.pick(&[Ty::I, Ty::M, Ty::D]);
                Op::Unreadable(id_for(rng, t), rng.pick(exts_of(t)).to_string(), rng.pick(&KINDS[1..]).to_string())
            }
            93..=94 => Op::Mkdir(rng.pick(&DIR_IDS[1..]).to_string()),
            95 => Op::Rmdir(rng.pick(&DIR_IDS[1..]).to_string()),
            96 => Op::DirUnreadable(rng.pick(DIR_IDS).to_string(), rng.pick(&KINDS[1..]).to_string()),
            97..=98 => {
                let n = 1 + rng.below(2);
                Op::SetFaults((0..n).map(|_| (rng.below(6), rng.pick(KINDS).to_string())).collect())
            }
            _ => Op::Load(Ty::I, "a".into()),
        };
        ops.push(op);
    }
    if hot {
        ops.push(Op::HotReload);
        observe_some(rng, &mut ops, &loaded, watchers);
    }
    ops
}

// ------------------------------------------------------------------------------------ engine

#[derive(Clone, Copy, PartialEq, Debug)]
pub enum FeKind {
    CacheNoHot,
    CacheNoHotAny,
    Local,
    LocalAny,
    /// AssetCache::with_source on a hot-reloading source, owned (exclusive operations allowed)
    Hot,
    HotAny,
    /// same, leaked (&'static): shared operations, watchers, enhance_hot_reloading
    HotLeaked,
    /// AssetCache::without_hot_reloading on a source that supports hot-reloading: for the model a
    /// cache without reloader, driven with the operations of a hot one (notifications, hot_reload,
    /// reload ids, watchers), which must all find nothing to do -- in any history
    NoHotOnHot,
    /// AssetCache::with_source on a source whose configure_hot_reloading fails (after keeping the
    /// sender): a cache without reloader for the model, driven like a hot one
    RefusedHot,
}

impl FeKind {
    pub fn hot(self) -> bool {
        matches!(self, FeKind::Hot | FeKind::HotAny | FeKind::HotLeaked)
    }
}

fn drive<F: Front>(fe: &mut F, cur: usize, mem: &Mem, ops: &[Op], ctx: &mut Ctx) -> Vec<(String, String)> {
    let mut res = vec![];
    for op in ops {
        CUR_CACHE.store(cur, std::sync::atomic::Ordering::SeqCst);
        ctx.last_order = "[]".into();
        let out = apply(fe, mem, op, ctx);
        let coq = if op.takes_order() {
            format!("{} {}", op.coq(), ctx.last_order)
        } else {
            op.coq()
        };
        res.push((coq, out));
    }
    CUR_CACHE.store(0, std::sync::atomic::Ordering::SeqCst);
    ctx.watchers.clear();
    res
}

/// (Coq op, observed (out, trace)) per operation
pub fn run_case(kind: FeKind, ops: &[Op], ctx: &mut Ctx) -> Vec<(String, String)> {
    ctx.ident.forget_all();
    ctx.watchers.clear();
    reset_tokens();
    let _ = take_trace();
    let _ = take_ledger();
    let mem = if kind == FeKind::RefusedHot { Mem::new_refusing() } else { Mem::new(kind.hot() || kind == FeKind::NoHotOnHot) };
    let res = match kind {
        FeKind::RefusedHot => {
            let mut c = Hot(AssetCache::with_source(mem.clone()));
            let p = &c.0 as *const _ as usize;
            drive(&mut c, p, &mem, ops, ctx)
        }
        FeKind::NoHotOnHot => {
            let mut c = Hot(AssetCache::without_hot_reloading(mem.clone()));
            let p = &c.0 as *const _ as usize;
            drive(&mut c, p, &mem, ops, ctx)
        }
        FeKind::CacheNoHot => {
            let mut c = AssetCache::without_hot_reloading(mem.clone());
            let p = &c as *const _ as usize;
            drive(&mut c, p, &mem, ops, ctx)
        }
        FeKind::CacheNoHotAny => {
            let mut c = ViaAny(AssetCache::without_hot_reloading(mem.clone()));
            let p = &c.0 as *const _ as usize;
            drive(&mut c, p, &mem, ops, ctx)
        }
        FeKind::Local => {
            let mut c = LocalAssetCache::with_source(mem.clone());
            drive(&mut c, 0, &mem, ops, ctx)
        }
        FeKind::LocalAny => {
            let mut c = ViaAny(LocalAssetCache::with_source(mem.clone()));
            drive(&mut c, 0, &mem, ops, ctx)
        }
        FeKind::Hot => {
            let mut c = Hot(AssetCache::with_source(mem.clone()));
            let p = &c.0 as *const _ as usize;
            drive(&mut c, p, &mem, ops, ctx)
        }
        FeKind::HotAny => {
            let mut c = ViaAny(Hot(AssetCache::with_source(mem.clone())));
            let p = &(c.0).0 as *const _ as usize;
            drive(&mut c, p, &mem, ops, ctx)
        }
        FeKind::HotLeaked => {
            let leaked: &'static AssetCache<Mem> = Box::leak(Box::new(AssetCache::with_source(mem.clone())));
            let mut c = Leaked(leaked);
            drive(&mut c, leaked as *const _ as usize, &mem, ops, ctx)
        }
    };
    let _ = take_trace();
    // C13: once the cache is gone every value ever made has been dropped exactly once
    if kind != FeKind::HotLeaked {
        if kind.hot() {
            // the reloader thread owns nothing, but let it finish draining
            std::thread::sleep(std::time::Duration::from_millis(2));
        }
        let made = peek_next_tok() - 1;
        let mut count = vec![0u32; made as usize + 1];
        for t in take_ledger() {
            if (t as usize) < count.len() {
                count[t as usize] += 1;
            }
        }
        let bad: Vec<String> = (1..=made as usize)
            .filter(|t| count[*t] != 1)
            .map(|t| format!("token {} dropped {} times", t, count[t]))
            .collect();
        if !bad.is_empty() && ctx.ledger_violations.len() < 5 {
            ctx.ledger_violations.push(format!(
                "{:?}: {} (ops: {})",
                kind,
                bad.join(", "),
                ops.iter().map(|o| o.coq()).collect::<Vec<_>>().join("; ")
            ));
        }
    }
    res
}

/// C02: two types under one id are two keys, for every hash seed (each trial = a fresh cache).
fn key_sweep(trials: u64, ctx: &mut Ctx) {
    trace_enable(false);
    for i in 0..trials {
        let id = format!("k{i}");
        let mut c = LocalAssetCache::with_source(Mem::new(false));
        c.get_or_insert::<SVal>(&id, SVal(V::new(1, "k")));
        let r = catch_unwind(AssertUnwindSafe(|| {
            let mut bad = vec![];
            if c.contains::<TInt>(&id) {
                bad.push("contains::<TInt> is true");
            }
            if c.get_cached::<TIntS>(&id).is_some() {
                bad.push("get_cached::<TIntS> found an entry");
            }
            bad
        }));
        let mut bad: Vec<String> = match r {
            Ok(b) => b.into_iter().map(|x| x.to_string()).collect(),
            Err(_) => vec!["a look-up under another type panicked".to_string()],
        };
        if c.remove::<TInt>(&id) {
            bad.push("remove::<TInt> returned true".into());
        }
        if !c.contains::<SVal>(&id) {
            bad.push("the SVal entry is gone".into());
        }
        if !bad.is_empty() && ctx.key_violations.len() < 5 {
            ctx.key_violations.push(format!("LocalAssetCache, only (SVal, {id:?}) stored: {}", bad.join("; ")));
        }
    }
    trace_enable(true);
}

/// C10 through the wrapper types of the crate: `Arc<U>`, `OnceInitCell<U, T>` and
/// `OnceInitCell<Option<U>, T>` take the reloadability of `U`.  All are loaded over one file of a
/// cache with a reloader, next to a reloadable witness of the same file; the file is edited and
/// `hot_reload` called until the witness shows the new content.  The wrappers of the type that opts
/// out must then still hold the first value, at reload id NEVER; the wrappers of the reloadable type
/// are the control (they must have followed, or the scenario proves nothing).
fn wrapper_scenario(ctx: &mut Ctx) {
    use assets_manager::OnceInitCell;
    let was = trace_is_enabled();
    trace_enable(false);
    for round in 0..3 {
        let mem = Mem::new_silent(true);
        mem.write("k", "x", b"1");
        let cache = AssetCache::with_source(mem.clone());
        if round == 1 {
            // the key was loaded, removed and re-created before
            let mut cache = cache;
            let _ = cache.load::<OnceInitCell<Option<TIntS>, String>>("k");
            let _ = cache.load::<Arc<TIntS>>("k");
            cache.remove::<OnceInitCell<Option<TIntS>, String>>("k");
            cache.remove::<Arc<TIntS>>("k");
            wrapper_round(&cache, &mem, ctx, "after remove and re-load");
        } else if round == 2 {
            let mut cache = cache;
            let _ = cache.load::<OnceInitCell<Option<TIntS>, String>>("k");
            cache.clear();
            wrapper_round(&cache, &mem, ctx, "after clear and re-load");
        } else {
            wrapper_round(&cache, &mem, ctx, "first load");
        }
    }
    let _ = take_ledger();
    let _ = take_trace();
    trace_enable(was);
}

/// A compound asset that stores a value of a reloadable type with `get_or_insert` while it loads.
#[derive(Debug)]
struct TInserter(#[allow(dead_code)] i64);
impl assets_manager::Compound for TInserter {
    fn load(cache: assets_manager::AnyCache, id: &assets_manager::SharedString) -> Result<Self, assets_manager::BoxedError> {
        let own = cache.load::<TInt>(&format!("{id}_src"))?.read().0.n;
        let h = cache.get_or_insert::<TInt>("g", TInt(V::new(700 + own, "inserted")));
        let n = h.read().0.n;
        Ok(TInserter(n))
    }
}

/// C10 for values stored with `get_or_insert` from inside a loader (on the caller's thread during a
/// first load, on the reloader's thread during a reload), under a key the reloader has seen loaded
/// from its file before: the file is edited, a pass runs (a witness loaded from a file edited in
/// the same notification follows), the stored value and its reload id stay.
fn inserted_scenario(ctx: &mut Ctx) {
    let was = trace_is_enabled();
    trace_enable(false);
    let never = assets_manager::verif_hooks::reload_id_raw(assets_manager::ReloadId::NEVER);
    let file = |id: &str| assets_manager::source::OwnedDirEntry::File(id.into(), "x".into());
    for round in 0..4 {
        let mem = Mem::new_silent(true);
        mem.write("g", "x", b"5");
        mem.write("w", "x", b"1");
        mem.write("ins_src", "x", b"1");
        let mut cache = AssetCache::with_source(mem.clone());
        let what = match round {
            0 => "a key the reloader never saw",
            1 => "a key loaded from its file and removed before",
            2 => "a key loaded from its file before; the cache was cleared",
            _ => "a key loaded from its file and removed before; stored again by a reload on the reloader's thread",
        };
        if round >= 1 {
            if cache.load::<TInt>("g").is_err() {
                continue;
            }
            if round == 2 {
                cache.clear();
            } else {
                cache.remove::<TInt>("g");
            }
        }
        if cache.load::<TInserter>("ins").is_err() {
            continue;
        }
        let mut expect = 701;
        if round == 3 {
            cache.remove::<TInt>("g");
            mem.write("ins_src", "x", b"2");
            mem.send(vec![file("ins_src")]);
            let t0 = std::time::Instant::now();
            while !cache.contains::<TInt>("g") && t0.elapsed() < std::time::Duration::from_secs(3) {
                cache.hot_reload();
                std::thread::sleep(std::time::Duration::from_millis(2));
            }
            expect = 702;
        }
        let Ok(witness) = cache.load::<TInt>("w") else { continue };
        let Some(g) = cache.get_cached::<TInt>("g") else { continue };
        if g.read().0.n != expect {
            continue;
        }
        mem.write("g", "x", b"6");
        mem.write("w", "x", b"2");
        mem.send(vec![file("g"), file("w")]);
        let t0 = std::time::Instant::now();
        while witness.read().0.n != 2 && t0.elapsed() < std::time::Duration::from_secs(3) {
            cache.hot_reload();
            std::thread::sleep(std::time::Duration::from_millis(2));
        }
        if witness.read().0.n != 2 {
            continue;
        }
        cache.hot_reload();
        ctx.wrapper_rounds += 1;
        let now = g.read().0.n;
        let rid = assets_manager::verif_hooks::reload_id_raw(g.last_reload_id());
        if (now != expect || rid != never) && ctx.wrapper_violations.len() < 5 {
            ctx.wrapper_violations.push(format!(
                "a value stored with get_or_insert from inside a loader under {what}: the file behind the key was edited and a reload pass ran (a witness edited in the same notification followed): the stored value {expect} is now {now}, reload id moved: {}",
                rid != never
            ));
        }
    }
    let _ = take_ledger();
    let _ = take_trace();
    trace_enable(was);
}

/// C13 for the lazily initialised wrapper: the value a loader made sits in an `OnceInitCell<U, T>`
/// until it is turned into a `T`; when a never initialised cell goes away (removed, cleared, dropped
/// with its cache, handed out by load_owned and dropped by the caller) the loader's value is dropped
/// exactly once -- also when `T` itself has nothing to drop.
fn cell_drop_scenario(ctx: &mut Ctx) {
    use assets_manager::OnceInitCell;
    let was = trace_is_enabled();
    trace_enable(false);
    fn one<T: Send + Sync + 'static>(tname: &str, ctx: &mut Ctx) {
        for way in ["remove", "clear", "drop of the cache", "load_owned, dropped by the caller"] {
            let mem = Mem::new_silent(false);
            mem.write("k", "x", b"1");
            let mut cache = AssetCache::without_hot_reloading(mem.clone());
            let _ = take_ledger();
            let ok = if way.starts_with("load_owned") {
                cache.load_owned::<OnceInitCell<TIntS, T>>("k").is_ok()
            } else {
                cache.load::<OnceInitCell<TIntS, T>>("k").is_ok()
            };
            if !ok {
                continue;
            }
            match way {
                "remove" => {
                    cache.remove::<OnceInitCell<TIntS, T>>("k");
                }
                "clear" => cache.clear(),
                _ => {}
            }
            drop(cache);
            let d = take_ledger();
            if d.len() != 1 && ctx.ledger_violations.len() < 5 {
                ctx.ledger_violations.push(format!(
                    "OnceInitCell<U, {tname}> never initialised, gone through {way}: the loader's value was dropped {} times, expected 1",
                    d.len()
                ));
            }
        }
    }
    one::<u32>("u32", ctx);
    one::<String>("String", ctx);
    one::<()>("()", ctx);
    let _ = take_ledger();
    trace_enable(was);
}

/// C05 while the reloader is busy ('static mode): a slow reload is under way; meanwhile an asset is
/// loaded for the first time (its registration waits in the cache-message channel), its file is
/// edited and the event sent (it waits in the event channel).  Cache messages are looked at first
/// on every turn of the reloader, so the event finds the asset registered and the asset follows.
fn busy_reload_scenario(ctx: &mut Ctx) {
    let was = trace_is_enabled();
    trace_enable(false);
    for round in 0..2 {
        let mem = Mem::new_silent(true);
        mem.write("slow", "wc", b"1");
        mem.write("a", "x", b"1");
        mem.write("b", "x", b"1");
        let cache: &'static AssetCache<Mem> = Box::leak(Box::new(AssetCache::with_source(mem.clone())));
        if cache.load::<TWideC>("slow").is_err() {
            continue;
        }
        cache.enhance_hot_reloading();
        std::thread::sleep(std::time::Duration::from_millis(50));
        mem.write("slow", "wc", b"m2");
        mem.send(vec![assets_manager::source::OwnedDirEntry::File("slow".into(), "wc".into())]);
        std::thread::sleep(std::time::Duration::from_millis(80));
        // the reloader is inside the slow loader now
        let (Ok(a), Ok(b)) = (cache.load::<TInt>("a"), cache.load::<TInt>("b")) else { continue };
        mem.write("a", "x", b"2");
        mem.write("b", "x", b"2");
        if round == 0 {
            mem.send(vec![assets_manager::source::OwnedDirEntry::File("a".into(), "x".into())]);
            mem.send(vec![assets_manager::source::OwnedDirEntry::File("b".into(), "x".into())]);
        } else {
            mem.send(vec![
                assets_manager::source::OwnedDirEntry::File("a".into(), "x".into()),
                assets_manager::source::OwnedDirEntry::File("b".into(), "x".into()),
            ]);
        }
        let t0 = std::time::Instant::now();
        while (a.read().0.n != 2 || b.read().0.n != 2) && t0.elapsed() < std::time::Duration::from_secs(4) {
            std::thread::sleep(std::time::Duration::from_millis(10));
        }
        let (va, vb) = (a.read().0.n, b.read().0.n);
        if (va != 2 || vb != 2) && ctx.busy_violations.len() < 5 {
            ctx.busy_violations.push(format!(
                "'static mode, reloader busy with a slow reload; meanwhile a and b were loaded (value 1), edited to 2 and notified ({}): 4 s later a = {va}, b = {vb}",
                if round == 0 { "one event each" } else { "one batch" }
            ));
        }
    }
    let _ = take_ledger();
    let _ = take_trace();
    trace_enable(was);
}

fn wrapper_round(cache: &AssetCache<Mem>, mem: &Mem, ctx: &mut Ctx, what: &str) {
    use assets_manager::OnceInitCell;
    let never = assets_manager::verif_hooks::reload_id_raw(assets_manager::ReloadId::NEVER);
    let (Ok(frozen), Ok(arc), Ok(cell), Ok(ocell), Ok(witness), Ok(control)) = (
        cache.load::<TIntS>("k"),
        cache.load::<Arc<TIntS>>("k"),
        cache.load::<OnceInitCell<TIntS, String>>("k"),
        cache.load::<OnceInitCell<Option<TIntS>, String>>("k"),
        cache.load::<TInt>("k"),
        cache.load::<OnceInitCell<Option<TInt>, String>>("k"),
    ) else {
        return;
    };
    let show = |v: &mut TIntS| format!("made from {}", v.0.n);
    let a = cell.read().get_or_init(show).clone();
    let b = ocell.read().get_or_init(|o| format!("made from {:?}", o.as_ref().map(|v| v.0.n))).clone();
    let c0 = control.read().get_or_init(|o| format!("made from {:?}", o.as_ref().map(|v| v.0.n))).clone();
    mem.write("k", "x", b"2");
    mem.send(vec![assets_manager::source::OwnedDirEntry::File("k".into(), "x".into())]);
    let t0 = std::time::Instant::now();
    while witness.read().0.n != 2 && t0.elapsed() < std::time::Duration::from_secs(3) {
        cache.hot_reload();
        std::thread::sleep(std::time::Duration::from_millis(2));
    }
    if witness.read().0.n != 2 {
        return; // the witness did not follow: nothing can be concluded from this round
    }
    // give the rest of the pass a chance: the control is reloaded in the same pass as the witness
    cache.hot_reload();
    let c1 = control.read().get().cloned();
    if c1.as_deref() == Some(c0.as_str()) {
        return; // control did not follow either (not a C10 matter)
    }
    let rid = |x: usize| x;
    ctx.wrapper_rounds += 1;
    let mut bad = vec![];
    if frozen.read().0.n != 1 || rid(assets_manager::verif_hooks::reload_id_raw(frozen.last_reload_id())) != never {
        bad.push("the plain opted-out asset".to_string());
    }
    if arc.read().0.n != 1 || assets_manager::verif_hooks::reload_id_raw(arc.last_reload_id()) != never {
        bad.push("Arc<U>".to_string());
    }
    if cell.read().get() != Some(&a) || assets_manager::verif_hooks::reload_id_raw(cell.last_reload_id()) != never {
        bad.push("OnceInitCell<U, T>".to_string());
    }
    if ocell.read().get() != Some(&b) || assets_manager::verif_hooks::reload_id_raw(ocell.last_reload_id()) != never {
        bad.push("OnceInitCell<Option<U>, T>".to_string());
    }
    if !bad.is_empty() && ctx.wrapper_violations.len() < 5 {
        ctx.wrapper_violations.push(format!(
            "{what}: U opts out of hot-reloading, the file was edited and a reload pass ran (a reloadable witness of the same file followed): rewritten or reload id moved for {}",
            bad.join(", ")
        ));
    }
}

pub fn run(a: &Args) {
    std::panic::set_hook(Box::new(|_| {}));
    trace_enable(true);
    let mut rng = Rng::new(a.seed);
    let n_cases = a
        .get("cases")
        .and_then(|s| s.parse().ok())
        .unwrap_or(if a.thorough() { 6000 } else { 800 });
    let mode = a.get("mode").unwrap_or("all").to_string();
    let shards = if a.thorough() { 16 } else { 4 };
    let mut all: Vec<Cases> = (0..shards).map(|_| Cases::new()).collect();
    let groups: Vec<usize> = all
        .iter_mut()
        .map(|c| c.group("sys_cases", "bool * list op * list (out * list ev)"))
        .collect();
    let mut ctx = Ctx::default();
    // the second cache exists (and has loaded its assets) before the first history starts
    let _ = other_cache();
    reset_tokens();
    let _ = take_ledger();
    let _ = take_trace();
    let only: Option<usize> = a.get("only").and_then(|x| x.parse().ok());
    if only.is_none() {
        key_sweep(if a.thorough() { 40000 } else { 4000 }, &mut ctx);
        cell_drop_scenario(&mut ctx);
        if mode != "cold" {
            wrapper_scenario(&mut ctx);
            inserted_scenario(&mut ctx);
            busy_reload_scenario(&mut ctx);
        }
    }
    let mut op_hist: std::collections::BTreeMap<String, u64> = Default::default();
    let mut fe_hist: std::collections::BTreeMap<String, u64> = Default::default();
    let mut len_hist: std::collections::BTreeMap<usize, u64> = Default::default();
    let mut out_hist: std::collections::BTreeMap<String, u64> = Default::default();
    let mut passes_nonempty = 0u64;
    // corpus first: the rewire+edit batch of known finding D8, a few times (the order of the pass
    // depends on the hash seeds)
    let mut corpus: Vec<(FeKind, Vec<Op>)> = vec![];
    if mode != "cold" {
        for _ in 0..6 {
            corpus.push((
                FeKind::Hot,
                vec![
                    Op::Write("n1".into(), "n".into(), Content::Script(vec![Line::Val(10)])),
                    Op::Write("n2".into(), "n".into(), Content::Script(vec![Line::Val(1)])),
                    Op::Load(Ty::N, "n1".into()),
                    Op::Load(Ty::N, "n2".into()),
                    Op::Write("n1".into(), "n".into(), Content::Script(vec![Line::Val(10), Line::Load(Ty::N, "n2".into())])),
                    Op::Write("n2".into(), "n".into(), Content::Script(vec![Line::Val(2)])),
                    Op::Notify(vec![(true, "n1".into(), "n".into()), (true, "n2".into(), "n".into())]),
                    Op::HotReload,
                    Op::GetCached(Ty::N, "n1".into()),
                    Op::GetCached(Ty::N, "n2".into()),
                ],
            ));
        }
    }
    // ids with a dot at either end are ids like any other: what is loaded under "a." is found
    // under "a." and not under "a"
    for kind in [FeKind::CacheNoHot, FeKind::Local, FeKind::Hot, FeKind::CacheNoHotAny] {
        if (mode == "cold" && kind.hot()) || (mode == "hot" && !kind.hot()) {
            continue;
        }
        corpus.push((
            kind,
            vec![
                Op::Write("a.".into(), "x".into(), Content::Bytes(b"5".to_vec())),
                Op::Write(".b".into(), "x".into(), Content::Bytes(b"6".to_vec())),
                Op::Load(Ty::I, "a.".into()),
                Op::Contains(Ty::I, "a.".into()),
                Op::Contains(Ty::I, "a".into()),
                Op::GetCached(Ty::I, "a.".into()),
                Op::Load(Ty::I, "a".into()),
                Op::Load(Ty::I, ".b".into()),
                Op::GetCached(Ty::I, "b".into()),
                Op::GetCached(Ty::I, ".b".into()),
                Op::Load(Ty::I, "a.".into()),
            ],
        ));
    }
    // a Compound that tolerates the failure of a nested load still depends on what it asked for:
    // once the child exists, is loaded and changes, the parent follows
    if mode != "cold" {
        for kind in [FeKind::Hot, FeKind::HotAny] {
            corpus.push((
                kind,
                vec![
                    Op::Write("n1".into(), "n".into(), Content::Script(vec![Line::Val(10), Line::Try(Box::new(Line::Load(Ty::I, "c".into())))])),
                    Op::Load(Ty::N, "n1".into()),
                    Op::Write("c".into(), "x".into(), Content::Bytes(b"1".to_vec())),
                    Op::Load(Ty::I, "c".into()),
                    Op::HotReload,
                    Op::Write("c".into(), "x".into(), Content::Bytes(b"2".to_vec())),
                    Op::Notify(vec![(true, "c".into(), "x".into())]),
                    Op::HotReload,
                    Op::GetCached(Ty::N, "n1".into()),
                    Op::GetCached(Ty::I, "c".into()),
                ],
            ));
        }
    }
    let n_corpus = corpus.len();
    for i in 0..(n_cases + n_corpus) {
        let kinds: &[FeKind] = match mode.as_str() {
            "cold" => &[FeKind::CacheNoHot, FeKind::CacheNoHotAny, FeKind::Local, FeKind::LocalAny],
            "hot" => &[FeKind::Hot, FeKind::HotAny, FeKind::HotLeaked, FeKind::HotLeaked],
            _ => &[
                FeKind::CacheNoHot,
                FeKind::CacheNoHotAny,
                FeKind::Local,
                FeKind::LocalAny,
                FeKind::Hot,
                FeKind::HotAny,
                FeKind::HotLeaked,
                FeKind::HotLeaked,
                FeKind::NoHotOnHot,
                FeKind::RefusedHot,
            ],
        };
        let kind = *rng.pick(kinds);
        let cfg = GenCfg {
            threads_ok: !matches!(kind, FeKind::Local | FeKind::LocalAny),
            spicy: rng.chance(1, 3),
            mutable: kind != FeKind::HotLeaked,
            hot: kind.hot() || kind == FeKind::NoHotOnHot || kind == FeKind::RefusedHot,
            leaked: kind == FeKind::HotLeaked,
        };
        let maxlen = if rng.chance(1, 5) { 60 } else { 25 };
        let len = 1 + rng.below(maxlen) as usize;
        let (kind, ops) = if i < n_corpus { corpus[i].clone() } else { (kind, gen_ops(&mut rng, len, cfg)) };
        // shrinking: `--only I --keep 1011..` re-runs just case I with a subset of its operations
        // (every case is still generated, so that the random stream is the one of the full run)
        let (ops, only_this) = match only {
            Some(k) if k == i => {
                let mask: Vec<bool> = a.get("keep").map(|m| m.chars().map(|c| c == '1').collect()).unwrap_or_default();
                let kept: Vec<Op> = ops.iter().enumerate().filter(|(j, _)| mask.get(*j).copied().unwrap_or(true)).map(|(_, o)| o.clone()).collect();
                (kept, true)
            }
            Some(_) => continue,
            None => (ops, false),
        };
        let res = run_case(kind, &ops, &mut ctx);
        if only_this {
            let mut c = Cases::new();
            let g = c.group("sys_cases", "bool * list op * list (out * list ev)");
            let coq = format!(
                "({}, {}, {})",
                cbool(kind.hot()),
                clist(&res.iter().map(|(o, _)| o.clone()).collect::<Vec<_>>()),
                clist(&res.iter().map(|(_, o)| o.clone()).collect::<Vec<_>>())
            );
            let json = format!(
                "{{\"frontend\": \"{kind:?}\", \"ops\": [{}], \"observed\": [{}]}}",
                ops.iter().map(|o| o.json()).collect::<Vec<_>>().join(", "),
                res.iter().map(|(_, o)| jstr(o)).collect::<Vec<_>>().join(", ")
            );
            c.push(g, coq, json);
            c.write(&a.out, "shrink", "From AM Require Import Ref.Load Ref.Sys Corr.SysCheck.\nFrom Coq Require Import ZArith.", &[("sys_cases", "sys_code")]);
            std::fs::write(format!("{}/shrink.n_ops", a.out), format!("{}", ops.len())).unwrap();
            return;
        }
        *fe_hist.entry(format!("{kind:?}")).or_insert(0) += 1;
        *len_hist.entry(ops.len() / 10 * 10).or_insert(0) += 1;
        for (op, o) in &res {
            let name = op.split(' ').next().unwrap().to_string();
            if (name == "OHotReload" || name == "ONotify" || name == "OEnhance") && !op.ends_with("[]") {
                passes_nonempty += 1;
            }
            *op_hist.entry(name).or_insert(0) += 1;
            let kind = if o.starts_with("((OutVal") {
                "value"
            } else if o.starts_with("((OutErr") {
                "error"
            } else if o.starts_with("(OutPanic") {
                "panic"
            } else if o.starts_with("(OutNone") {
                "none"
            } else {
                "other"
            };
            *out_hist.entry(kind.to_string()).or_insert(0) += 1;
        }
        let nontrivial = ops.iter().filter(|o| matches!(o, Op::Load(..))).count() >= 2
            && res.iter().any(|(_, o)| o.starts_with("((OutVal"))
            && ops.iter().any(|o| matches!(o, Op::Remove(..) | Op::Take(..) | Op::Clear | Op::Write(..) | Op::HotReload));
        let coq = format!(
            "({}, {}, {})",
            cbool(kind.hot()),
            clist(&res.iter().map(|(o, _)| o.clone()).collect::<Vec<_>>()),
            clist(&res.iter().map(|(_, o)| o.clone()).collect::<Vec<_>>())
        );
        let json = format!(
            "{{\"frontend\": \"{kind:?}\", \"ops\": [{}], \"observed\": [{}]}}",
            ops.iter().map(|o| o.json()).collect::<Vec<_>>().join(", "),
            res.iter().map(|(_, o)| jstr(o)).collect::<Vec<_>>().join(", ")
        );
        let s = i % shards;
        all[s].push_nt(groups[s], coq, json, nontrivial);
    }
    for (s, c) in all.iter().enumerate() {
        c.write(
            &a.out,
            &format!("sysdiff{s}"),
            "From AM Require Import Ref.Load Ref.Sys Corr.SysCheck.\nFrom Coq Require Import ZArith.",
            &[("sys_cases", "sys_code")],
        );
    }
    {
        let mut f = String::new();
        for (class, list) in [
            ("handle-changed", &ctx.ident.violations),
            ("value-not-dropped-exactly-once", &ctx.ledger_violations),
            ("key-type-confusion", &ctx.key_violations),
            ("non-reloadable-rewritten", &ctx.wrapper_violations),
            ("stale-after-pass", &ctx.busy_violations),
        ] {
            for v in list.iter().take(5) {
                f.push_str(&format!(
                    "{{\"engine\": \"sysdiff\", \"kind\": \"monitor\", \"class\": \"{class}\", \"case\": {{\"observed\": {}}}}}\n",
                    jstr(v)
                ));
            }
        }
        if !f.is_empty() {
            std::fs::write(format!("{}/sysdiff.violations.jsonl", a.out), f).unwrap();
        }
    }
    let distinct: usize = all.iter().map(|c| c.distinct_nontrivial()).sum();
    let samples: Vec<String> = all.iter().flat_map(|c| c.samples.iter().take(1).cloned()).take(3).collect();
    std::fs::write(
        format!("{}/sysdiff.summary.json", a.out),
        format!(
            "{{\"engine\": \"sysdiff\", \"explain\": {{\"sys_cases\": \"sys_explain\"}}, \"code_classes\": {{\"1\": \"model-disagreement\", \"2\": \"late-bound-stale\", \"3\": \"non-reloadable-rewritten\", \"4\": \"stale-after-pass\"}}, \"evaluations\": {}, \"distinct_nontrivial\": {}, \"samples\": [{}], \"distribution\": {{\"frontends\": {}, \"ops\": {}, \"sequence_length_buckets\": {}, \"outcomes\": {}, \"reload_passes_that_visited_assets\": {}, \"wrapper_rounds_concluded\": {}}}}}",
            n_cases,
            distinct,
            samples.join(", "),
            jmap(&fe_hist),
            jmap(&op_hist),
            jmap(&len_hist),
            jmap(&out_hist),
            passes_nonempty,
            ctx.wrapper_rounds
        ),
    )
    .unwrap();
    // leaked caches keep their reloader threads: leave without joining anything
    std::process::exit(0);
}
