//! C17: OnceInitCell.  K threads call get_or_try_init with scripted initialiser outcomes
//! (succeed / fail / panic) on cells whose seed has a destructor (tracked), has none (u64), or has a
//! panicking destructor.  Monitors = the statements of Props/C17.v on the implementation:
//! the succeeding initialiser ran exactly once iff the cell is initialised, every Ok caller got
//! the same reference, a failure keeps the seed (a later attempt succeeds), `get` does not block,
//! seed and value are each dropped exactly once.
use crate::util::*;
use assets_manager::OnceInitCell;
use std::sync::atomic::{AtomicU64, Ordering};
use std::sync::{Arc, Barrier, Mutex};

#[derive(Default)]
struct Counters {
    seed_drops: AtomicU64,
    value_drops: AtomicU64,
    ok_runs: AtomicU64,
    /// 1 + index of the initialiser that succeeded last
    winner: AtomicU64,
}

struct Seed {
    c: Arc<Counters>,
    panic_on_drop: bool,
}
impl Drop for Seed {
    fn drop(&mut self) {
        self.c.seed_drops.fetch_add(1, Ordering::SeqCst);
        if self.panic_on_drop && !std::thread::panicking() {
            panic!("seed destructor panics");
        }
    }
}
struct Val {
    c: Arc<Counters>,
    n: u64,
}
impl Drop for Val {
    fn drop(&mut self) {
        self.c.value_drops.fetch_add(1, Ordering::SeqCst);
    }
}

#[derive(Clone, Copy, Debug, PartialEq)]
enum Out {
    Ok,
    Fail,
    Panic,
}

fn scripts(max_len: usize) -> Vec<Vec<Out>> {
    let mut all = vec![vec![]];
    let mut frontier = vec![vec![]];
    for _ in 0..max_len {
        let mut next = vec![];
        for s in &frontier {
            for o in [Out::Ok, Out::Fail, Out::Panic] {
                let mut t: Vec<Out> = s.clone();
                t.push(o);
                next.push(t);
            }
        }
        all.extend(next.iter().cloned());
        frontier = next;
    }
    all
}

/// One scenario with a tracked seed; returns a description of what went wrong, if anything.
fn scenario(outs: &[Out], concurrent: bool, panic_on_drop: bool) -> Option<String> {
    let c = Arc::new(Counters::default());
    let cell: OnceInitCell<Seed, Val> = OnceInitCell::new(Seed { c: c.clone(), panic_on_drop });
    let results: Mutex<Vec<(usize, Result<usize, &'static str>)>> = Mutex::new(vec![]);
    let attempt = |i: usize, o: Out| {
        let r = std::panic::catch_unwind(std::panic::AssertUnwindSafe(|| {
            cell.get_or_try_init(|_seed| match o {
                Out::Ok => {
                    if concurrent {
                        std::thread::sleep(std::time::Duration::from_micros(300));
                    }
                    c.ok_runs.fetch_add(1, Ordering::SeqCst);
                    c.winner.store(i as u64 + 1, Ordering::SeqCst);
                    Ok(Val { c: c.clone(), n: i as u64 })
                }
                Out::Fail => Err("failed"),
                Out::Panic => panic!("initialiser panics"),
            })
            .map(|v| v as *const Val as usize)
        }));
        let r = match r {
            Ok(x) => x,
            Err(_) => Err("panicked"),
        };
        results.lock().unwrap().push((i, r));
    };
    if concurrent {
        let b = Arc::new(Barrier::new(outs.len().max(1)));
        std::thread::scope(|s| {
            for (i, o) in outs.iter().enumerate() {
                let b = b.clone();
                let attempt = &attempt;
                s.spawn(move || {
                    b.wait();
                    attempt(i, *o);
                });
            }
        });
    } else {
        for (i, o) in outs.iter().enumerate() {
            attempt(i, *o);
        }
    }
    let results = results.into_inner().unwrap();
    let inited = cell.get().is_some();
    let ok_runs = c.ok_runs.load(Ordering::SeqCst);
    let mut bad = vec![];
    if ok_runs != inited as u64 {
        bad.push(format!("{ok_runs} initialisers ran to success, cell initialised = {inited}"));
    }
    let addrs: Vec<usize> = results.iter().filter_map(|(_, r)| r.as_ref().ok().copied()).collect();
    if addrs.windows(2).any(|w| w[0] != w[1]) || (inited && addrs.iter().any(|a| Some(*a) != cell.get().map(|v| v as *const Val as usize))) {
        bad.push(format!("callers got different references {:x?}", addrs));
    }
    // with a panicking seed destructor the successful caller unwinds after the cell was initialised
    if !panic_on_drop {
        let oks = results.iter().filter(|(_, r)| r.is_ok()).count();
        let expected_ok = if inited {
            // every Ok-scripted caller, plus callers of any script that arrived after initialisation
            outs.iter().filter(|o| **o == Out::Ok).count()
        } else {
            0
        };
        if oks < expected_ok {
            bad.push(format!("{oks} callers got a value, at least {expected_ok} expected"));
        }
        if !inited && results.iter().any(|(_, r)| r.is_ok()) {
            bad.push("a caller got a value from an uninitialised cell".into());
        }
    }
    // the value in the cell is the one the successful initialiser made
    if let Some(v) = cell.get() {
        let w = c.winner.load(Ordering::SeqCst);
        if ok_runs == 1 && v.n + 1 != w {
            bad.push(format!("the cell holds value #{} but initialiser #{} succeeded", v.n, w.wrapping_sub(1)));
        }
    }
    let seed_before = c.seed_drops.load(Ordering::SeqCst);
    if seed_before != inited as u64 {
        bad.push(format!("seed dropped {seed_before} times before the cell was dropped (initialised = {inited})"));
    }
    if c.value_drops.load(Ordering::SeqCst) != 0 {
        bad.push("the value was dropped while the cell is alive".into());
    }
    // a failure keeps the seed: a later attempt still succeeds
    if !inited {
        let r = std::panic::catch_unwind(std::panic::AssertUnwindSafe(|| {
            cell.get_or_init(|_s| Val { c: c.clone(), n: 99 }).n
        }));
        match r {
            Ok(99) => {}
            Ok(n) => bad.push(format!("late initialisation returned {n}")),
            Err(_) if panic_on_drop => {}
            Err(_) => bad.push("late initialisation panicked".into()),
        }
    }
    let r = std::panic::catch_unwind(std::panic::AssertUnwindSafe(move || drop(cell)));
    let _ = r;
    let (sd, vd) = (c.seed_drops.load(Ordering::SeqCst), c.value_drops.load(Ordering::SeqCst));
    if sd != 1 || vd != 1 {
        bad.push(format!("after dropping the cell: seed dropped {sd} times, value dropped {vd} times"));
    }
    if bad.is_empty() {
        None
    } else {
        Some(format!("outcomes {:?}, concurrent {}, seed destructor panics {}: {}", outs, concurrent, panic_on_drop, bad.join("; ")))
    }
}

/// the path for seeds without destructor (needs_drop::<U>() == false)
fn scenario_no_drop(outs: &[Out], concurrent: bool) -> Option<String> {
    let vd = Arc::new(Counters::default());
    let cell: OnceInitCell<u64, Val> = OnceInitCell::new(7);
    let addrs: Mutex<Vec<usize>> = Mutex::new(vec![]);
    let attempt = |i: usize, o: Out| {
        let r = std::panic::catch_unwind(std::panic::AssertUnwindSafe(|| {
            cell.get_or_try_init(|seed| {
                *seed += 1;
                if concurrent {
                    std::thread::sleep(std::time::Duration::from_micros(300));
                }
                match o {
                    Out::Ok => {
                        vd.ok_runs.fetch_add(1, Ordering::SeqCst);
                        Ok(Val { c: vd.clone(), n: i as u64 })
                    }
                    Out::Fail => Err(()),
                    Out::Panic => panic!("initialiser panics"),
                }
            })
            .map(|v| v as *const Val as usize)
        }));
        if let Ok(Ok(a)) = r {
            addrs.lock().unwrap().push(a);
        }
    };
    if concurrent {
        let b = Barrier::new(outs.len().max(1));
        std::thread::scope(|s| {
            for (i, o) in outs.iter().enumerate() {
                let attempt = &attempt;
                let b = &b;
                s.spawn(move || {
                    b.wait();
                    attempt(i, *o)
                });
            }
        });
    } else {
        for (i, o) in outs.iter().enumerate() {
            attempt(i, *o);
        }
    }
    let inited = cell.get().is_some();
    let mut bad = vec![];
    if vd.ok_runs.load(Ordering::SeqCst) != inited as u64 {
        bad.push("successful initialisers != initialised".to_string());
    }
    let a = addrs.into_inner().unwrap();
    if a.windows(2).any(|w| w[0] != w[1]) {
        bad.push("different references".into());
    }
    drop(cell);
    if vd.value_drops.load(Ordering::SeqCst) != inited as u64 {
        bad.push(format!("value dropped {} times, initialised = {inited}", vd.value_drops.load(Ordering::SeqCst)));
    }
    if bad.is_empty() {
        None
    } else {
        Some(format!("no-drop seed, outcomes {:?}, concurrent {}: {}", outs, concurrent, bad.join("; ")))
    }
}

/// `get` returns at once while an initialiser is still running
fn get_does_not_block() -> Option<String> {
    let cell: OnceInitCell<u64, u64> = OnceInitCell::new(1);
    let started = Barrier::new(2);
    let mut res = None;
    std::thread::scope(|s| {
        s.spawn(|| {
            cell.get_or_init(|_| {
                started.wait();
                std::thread::sleep(std::time::Duration::from_millis(300));
                5
            });
        });
        started.wait();
        let t0 = std::time::Instant::now();
        let g = cell.get().copied();
        let dt = t0.elapsed();
        if g.is_some() || dt > std::time::Duration::from_millis(100) {
            res = Some(format!("get() during initialisation returned {:?} after {:?}", g, dt));
        }
    });
    res
}

/// `get_or_init` with a panicking initialiser: the cell keeps (and still owns) its seed
fn panicking_get_or_init(panics: usize) -> Option<String> {
    let c = Arc::new(Counters::default());
    let cell: OnceInitCell<Seed, Val> = OnceInitCell::new(Seed { c: c.clone(), panic_on_drop: false });
    let mut bad = vec![];
    for k in 0..panics {
        let r = std::panic::catch_unwind(std::panic::AssertUnwindSafe(|| {
            cell.get_or_init(|_| panic!("initialiser panics"));
        }));
        if r.is_ok() || cell.get().is_some() {
            bad.push(format!("panicking get_or_init #{k} left the cell initialised"));
        }
        let d = c.seed_drops.load(Ordering::SeqCst);
        if d != 0 {
            bad.push(format!("after {} panicking get_or_init calls the seed was dropped {d} times (cell uninitialised)", k + 1));
            break;
        }
    }
    let v = cell.get_or_init(|_| Val { c: c.clone(), n: 5 }).n;
    if v != 5 {
        bad.push(format!("initialisation after the panics gave {v}"));
    }
    drop(cell);
    let (sd, vd) = (c.seed_drops.load(Ordering::SeqCst), c.value_drops.load(Ordering::SeqCst));
    if sd != 1 || vd != 1 {
        bad.push(format!("{panics} panicking get_or_init calls, one success, cell dropped: seed dropped {sd} times, value {vd} times"));
    }
    if bad.is_empty() { None } else { Some(bad.join("; ")) }
}

/// a zero-sized seed with a destructor is still a seed: dropped exactly once
fn zero_sized_seed() -> Option<String> {
    static ZDROPS: AtomicU64 = AtomicU64::new(0);
    struct Z;
    impl Drop for Z {
        fn drop(&mut self) {
            ZDROPS.fetch_add(1, Ordering::SeqCst);
        }
    }
    let mut bad = vec![];
    for init in [false, true] {
        ZDROPS.store(0, Ordering::SeqCst);
        let cell: OnceInitCell<Z, u64> = OnceInitCell::new(Z);
        if init {
            cell.get_or_init(|_| 3);
            if ZDROPS.load(Ordering::SeqCst) != 1 {
                bad.push(format!("zero-sized seed: dropped {} times right after a successful initialisation", ZDROPS.load(Ordering::SeqCst)));
            }
        }
        drop(cell);
        if ZDROPS.load(Ordering::SeqCst) != 1 {
            bad.push(format!("zero-sized seed (initialised = {init}): dropped {} times after the cell was dropped", ZDROPS.load(Ordering::SeqCst)));
        }
    }
    if bad.is_empty() { None } else { Some(bad.join("; ")) }
}

/// a cell built with its value: initialised from the start, no initialiser ever runs, the value is
/// dropped once with the cell
fn with_value_scenario() -> Option<String> {
    let c = Arc::new(Counters::default());
    let cell: OnceInitCell<Seed, Val> = OnceInitCell::with_value(Val { c: c.clone(), n: 9 });
    let mut bad = vec![];
    if cell.get().map(|v| v.n) != Some(9) {
        bad.push("with_value: get() does not return the value".to_string());
    }
    let ran = std::sync::atomic::AtomicBool::new(false);
    let v = cell
        .get_or_init(|_| {
            ran.store(true, Ordering::SeqCst);
            Val { c: c.clone(), n: 1 }
        })
        .n;
    if v != 9 || ran.load(Ordering::SeqCst) {
        bad.push(format!("with_value: get_or_init ran an initialiser or returned {v}"));
    }
    drop(cell);
    let (sd, vd) = (c.seed_drops.load(Ordering::SeqCst), c.value_drops.load(Ordering::SeqCst));
    if sd != 0 || vd != 1 {
        bad.push(format!("with_value: seed dropped {sd} times, value dropped {vd} times"));
    }
    if bad.is_empty() { None } else { Some(bad.join("; ")) }
}

/// a value type WITHOUT drop glue and a tracked seed: whatever happened before, dropping the cell
/// must leave the seed dropped exactly once
fn scenario_plain_value(outs: &[Out]) -> Option<String> {
    let c = Arc::new(Counters::default());
    let cell: OnceInitCell<Seed, u64> = OnceInitCell::new(Seed { c: c.clone(), panic_on_drop: false });
    for (i, o) in outs.iter().enumerate() {
        let _ = std::panic::catch_unwind(std::panic::AssertUnwindSafe(|| {
            cell.get_or_try_init(|_| match o {
                Out::Ok => Ok(i as u64),
                Out::Fail => Err(()),
                Out::Panic => panic!("initialiser panics"),
            })
            .map(|v| *v)
        }));
    }
    let inited = cell.get().is_some();
    let before = c.seed_drops.load(Ordering::SeqCst);
    drop(cell);
    let after = c.seed_drops.load(Ordering::SeqCst);
    if before != inited as u64 || after != 1 {
        Some(format!(
            "value type without destructor, outcomes {:?}: seed dropped {before} times before and {after} times after dropping the cell (initialised = {inited})",
            outs
        ))
    } else {
        None
    }
}

/// while the initialising thread is still dropping the seed, `get` either says None or already
/// shows the final value -- never anything else
fn get_during_seed_destructor() -> Option<String> {
    struct SlowSeed(Arc<std::sync::atomic::AtomicBool>, [u64; 4]);
    impl Drop for SlowSeed {
        fn drop(&mut self) {
            self.0.store(true, Ordering::SeqCst);
            std::thread::sleep(std::time::Duration::from_millis(150));
        }
    }
    let dropping = Arc::new(std::sync::atomic::AtomicBool::new(false));
    let cell: OnceInitCell<SlowSeed, [u64; 4]> = OnceInitCell::new(SlowSeed(dropping.clone(), [7; 4]));
    let mut res = None;
    std::thread::scope(|s| {
        s.spawn(|| {
            cell.get_or_init(|_| [42; 4]);
        });
        let t0 = std::time::Instant::now();
        while !dropping.load(Ordering::SeqCst) && t0.elapsed() < std::time::Duration::from_secs(5) {
            std::hint::spin_loop();
        }
        for _ in 0..50 {
            if let Some(v) = cell.get() {
                if *v != [42; 4] {
                    res = Some(format!("get() returned {:?} while the seed was being dropped (the initialiser made {:?})", v, [42u64; 4]));
                    break;
                }
            }
            std::thread::sleep(std::time::Duration::from_millis(2));
        }
    });
    if res.is_none() && cell.get() != Some(&[42; 4]) {
        res = Some(format!("after initialisation get() = {:?}", cell.get()));
    }
    res
}

pub fn run(a: &Args) {
    std::panic::set_hook(Box::new(|_| {}));
    let max_len = if a.thorough() { 5 } else { 4 };
    let all = scripts(max_len);
    let mut bad: Vec<String> = vec![];
    let mut evals = 0u64;
    let reps = if a.thorough() { 20 } else { 2 };
    for s in &all {
        evals += 3;
        bad.extend(scenario(s, false, false));
        bad.extend(scenario_no_drop(s, false));
        bad.extend(scenario_plain_value(s));
        if s.len() >= 2 {
            for _ in 0..reps {
                evals += 2;
                bad.extend(scenario(s, true, false));
                bad.extend(scenario_no_drop(s, true));
            }
        }
        if s.len() <= 3 {
            evals += 1;
            bad.extend(scenario(s, false, true));
        }
    }
    for k in 0..4 {
        evals += 1;
        bad.extend(panicking_get_or_init(k));
    }
    evals += 2;
    bad.extend(with_value_scenario());
    bad.extend(zero_sized_seed());
    evals += 2;
    bad.extend(get_does_not_block());
    bad.extend(get_during_seed_destructor());
    if !bad.is_empty() {
        let f: String = bad
            .iter()
            .take(5)
            .map(|v| format!("{{\"engine\": \"oncediff\", \"kind\": \"monitor\", \"class\": \"once-init\", \"case\": {{\"observed\": {}}}}}\n", jstr(v)))
            .collect();
        std::fs::write(format!("{}/oncediff.violations.jsonl", a.out), f).unwrap();
    }
    std::fs::write(
        format!("{}/oncediff.summary.json", a.out),
        format!(
            "{{\"engine\": \"oncediff\", \"evaluations\": {evals}, \"distinct_nontrivial\": {}, \"samples\": [{{\"kind\": \"outcome script\", \"script\": {}}}, {{\"kind\": \"outcome script, one thread per outcome\", \"script\": {}}}], \"outcome_scripts\": {}, \"max_script_length\": {max_len}, \"exhaustive\": true}}",
            all.len() * 3,
            jstr(&format!("{:?}", all[all.len() / 2])),
            jstr(&format!("{:?}", all[all.len() - 1])),
            all.len()
        ),
    )
    .unwrap();
}
