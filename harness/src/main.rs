//! `amh`: drives the real `assets_manager` crate (built from /repo's working tree with
//! `--cfg assets_manager_verif`) and writes what it observed as Coq case files, which the
//! orchestrator evaluates against the reference model with `coqc`.
mod answers;
mod bytesdiff;
mod loaddiff;
mod ledger;
mod loopdiff;
mod oncediff;
mod racediff;
mod ridiff;
mod rwdiff;
mod srcdiff;
mod sysdiff;
mod util;
mod watchdiff;
mod world;

#[global_allocator]
static LEDGER_ALLOC: ledger::Ledger = ledger::Ledger;

fn main() {
    let a = util::Args::parse();
    std::fs::create_dir_all(&a.out).unwrap();
    match a.engine.as_str() {
        "ridiff" => ridiff::run(&a),
        "answers" => answers::run(&a),
        "rwdiff" => rwdiff::run(&a),
        "sysdiff" => sysdiff::run(&a),
        "loopdiff" => loopdiff::run(&a),
        "watchdiff" => watchdiff::run(&a),
        "racediff" => racediff::run(&a),
        "srcdiff" => srcdiff::run(&a),
        "oncediff" => oncediff::run(&a),
        "bytesdiff" => bytesdiff::run(&a),
        "loaddiff" => loaddiff::run(&a),
        "answers-child" => std::process::exit(answers::child(&a)),
        other => {
            eprintln!("unknown engine {other}");
            std::process::exit(2);
        }
    }
}
