//! C15: the reloader thread is quiet when idle and goes away with its cache.
//! Create / use / drop sequences of hot-reloading caches over the in-memory and the filesystem
//! source; after each step the `assets_hot_relo*` tasks of this process are sampled from
//! /proc/self/task (state and CPU ticks over a window) and compared with the status the loop model
//! (coq/Ref/Reloader.v) predicts: Blocked => sleeping, 0 ticks; Exited => gone (or sleeping for
//! good); Running is never a resting state.
use crate::util::*;
use crate::world::*;
use assets_manager::{source::FileSystem, source::OwnedDirEntry, AssetCache};
use std::time::{Duration, Instant};

#[derive(Debug, Clone)]
pub struct Task {
    pub tid: u64,
    pub state: char,
    pub ticks: u64,
    /// context switches so far (voluntary + involuntary): every wake-up of a sleeping task is one
    pub switches: u64,
}

pub fn reloader_tasks() -> Vec<Task> {
    let mut v = vec![];
    if let Ok(rd) = std::fs::read_dir("/proc/self/task") {
        for e in rd.flatten() {
            let p = e.path();
            let comm = std::fs::read_to_string(p.join("comm")).unwrap_or_default();
            if !comm.trim().starts_with("assets_hot_relo") {
                continue;
            }
            let stat = std::fs::read_to_string(p.join("stat")).unwrap_or_default();
            // pid (comm) state ... utime(14) stime(15)
            if let Some(close) = stat.rfind(')') {
                let f: Vec<&str> = stat[close + 2..].split_whitespace().collect();
                if f.len() > 13 {
                    let status = std::fs::read_to_string(p.join("status")).unwrap_or_default();
                    let switches: u64 = status
                        .lines()
                        .filter(|l| l.starts_with("voluntary_ctxt_switches") || l.starts_with("nonvoluntary_ctxt_switches"))
                        .filter_map(|l| l.split_whitespace().last().and_then(|x| x.parse::<u64>().ok()))
                        .sum();
                    v.push(Task {
                        switches,
                        tid: e.file_name().to_string_lossy().parse().unwrap_or(0),
                        state: f[0].chars().next().unwrap_or('?'),
                        ticks: f[11].parse::<u64>().unwrap_or(0) + f[12].parse::<u64>().unwrap_or(0),
                    });
                }
            }
        }
    }
    v
}

/// (live reloader tasks, max ticks consumed by one of them over the window, states)
pub fn sample(window_ms: u64) -> (usize, u64, String) {
    let before = reloader_tasks();
    std::thread::sleep(Duration::from_millis(window_ms));
    let after = reloader_tasks();
    let mut max = 0;
    let mut states = String::new();
    for t in &after {
        states.push(t.state);
        if let Some(b) = before.iter().find(|b| b.tid == t.tid) {
            max = max.max(t.ticks.saturating_sub(b.ticks));
        }
    }
    (after.len(), max, states)
}

/// the most wake-ups (context switches) one live reloader task went through over the window: a task
/// that blocks until there is something to do has none, a poller has one per period
pub fn sample_wakeups(window_ms: u64) -> u64 {
    let before = reloader_tasks();
    std::thread::sleep(Duration::from_millis(window_ms));
    let after = reloader_tasks();
    let mut max = 0;
    for t in &after {
        if let Some(b) = before.iter().find(|b| b.tid == t.tid) {
            max = max.max(t.switches.saturating_sub(b.switches));
        }
    }
    max
}

#[derive(Clone, Copy, Debug)]
enum DropWhen {
    Idle,
    AfterHotReload,
    WithQueuedEvents,
    AfterLoads,
}

fn one_cache_mem(when: DropWhen) {
    let mem = Mem::new(true);
    mem.write("a", "x", b"1");
    let cache = AssetCache::with_source(mem.clone());
    match when {
        DropWhen::Idle => {}
        DropWhen::AfterHotReload => {
            cache.load::<TInt>("a").unwrap();
            cache.hot_reload();
        }
        DropWhen::WithQueuedEvents => {
            cache.load::<TInt>("a").unwrap();
            for _ in 0..50 {
                mem.send(vec![OwnedDirEntry::File("a".into(), "x".into())]);
            }
        }
        DropWhen::AfterLoads => {
            for i in 0..20 {
                mem.write(&format!("f{i}"), "x", b"2");
                let _ = cache.load::<TInt>(&format!("f{i}"));
            }
        }
    }
    drop(cache);
    // the source (and with it the EventSender it keeps, like a watcher would) outlives the cache
    std::mem::forget(mem);
}

fn one_cache_fs(dir: &std::path::Path, when: DropWhen) {
    std::fs::write(dir.join("a.txt"), "hello").unwrap();
    let cache = AssetCache::with_source(FileSystem::new(dir).unwrap());
    match when {
        DropWhen::Idle => {}
        DropWhen::AfterHotReload => {
            let _ = cache.load::<String>("a");
            cache.hot_reload();
        }
        DropWhen::WithQueuedEvents => {
            let _ = cache.load::<String>("a");
            for i in 0..20 {
                std::fs::write(dir.join("a.txt"), format!("hello {i}")).unwrap();
            }
        }
        DropWhen::AfterLoads => {
            let _ = cache.load::<String>("a");
            let _ = cache.load::<String>("missing");
        }
    }
    drop(cache);
}

pub fn run(a: &Args) {
    trace_enable(false);
    let window = if a.thorough() { 1500 } else { 400 };
    let whens = [DropWhen::Idle, DropWhen::AfterHotReload, DropWhen::WithQueuedEvents, DropWhen::AfterLoads];
    let mut violations: Vec<(String, String)> = vec![];
    let mut samples = vec![];
    let mut evals = 0;
    let tmp = std::env::temp_dir().join(format!("amh-loop-{}", std::process::id()));
    let _ = std::fs::create_dir_all(&tmp);

    // (1) a live, idle cache: its reloader must sleep
    {
        let mem = Mem::new(true);
        mem.write("a", "x", b"1");
        let cache = AssetCache::with_source(mem.clone());
        cache.load::<TInt>("a").unwrap();
        cache.hot_reload();
        std::thread::sleep(Duration::from_millis(100));
        let (n, ticks, states) = sample(window);
        evals += 1;
        samples.push(format!("{{\"kind\": \"idle live cache (Mem)\", \"reloader_tasks\": {n}, \"max_ticks_in_window\": {ticks}, \"states\": {}}}", jstr(&states)));
        if n != 1 || ticks > 1 {
            violations.push(("reloader-busy-while-idle".into(), format!("idle cache: {n} reloader task(s), {ticks} ticks in {window} ms, states {states}")));
        }
        let fs_dir = tmp.join("live");
        let _ = std::fs::create_dir_all(&fs_dir);
        std::fs::write(fs_dir.join("a.txt"), "x").unwrap();
        let fcache = AssetCache::with_source(FileSystem::new(&fs_dir).unwrap());
        let _ = fcache.load::<String>("a");
        std::thread::sleep(Duration::from_millis(100));
        let (n2, ticks2, states2) = sample(window);
        evals += 1;
        samples.push(format!("{{\"kind\": \"idle live caches (Mem + FileSystem)\", \"reloader_tasks\": {n2}, \"max_ticks_in_window\": {ticks2}, \"states\": {}}}", jstr(&states2)));
        if ticks2 > 1 {
            violations.push(("reloader-busy-while-idle".into(), format!("idle caches: {n2} reloader tasks, {ticks2} ticks in {window} ms, states {states2}")));
        }
        // ... and must not be woken at all: blocked, not polling with a period too long to show as CPU
        let wake = sample_wakeups(window);
        evals += 1;
        samples.push(format!("{{\"kind\": \"idle live caches (Mem + FileSystem): wake-ups\", \"max_context_switches_in_window\": {wake}}}"));
        if wake > 3 {
            violations.push(("reloader-busy-while-idle".into(), format!("idle caches: a reloader task was woken {wake} times in {window} ms although nothing happened (it polls instead of blocking)")));
        }
        drop(fcache);
        drop(cache);
        std::mem::forget(mem);
        // a source whose watcher ended (no event sender left) while its cache lives on: the
        // reloader may leave or sleep, but it must not spin; the cache keeps answering
        let mem = Mem::new(true);
        mem.write("a", "x", b"1");
        let cache = AssetCache::with_source(mem.clone());
        cache.load::<TInt>("a").unwrap();
        cache.hot_reload();
        mem.drop_sender();
        std::thread::sleep(Duration::from_millis(100));
        let (n3, ticks3, states3) = sample(window);
        evals += 1;
        samples.push(format!("{{\"kind\": \"live cache whose source dropped its event sender\", \"reloader_tasks\": {n3}, \"max_ticks_in_window\": {ticks3}, \"states\": {}}}", jstr(&states3)));
        if ticks3 > 1 {
            violations.push(("reloader-busy-while-idle".into(), format!("cache alive, event sender dropped: {n3} reloader task(s), {ticks3} ticks in {window} ms, states {states3}")));
        }
        cache.hot_reload();
        let _ = cache.load::<TInt>("a");
        drop(cache);
    }
    std::thread::sleep(Duration::from_millis(200));

    // (1b) gone means gone: some time after the cache was dropped nobody is left to take events
    // (the sender is told so, or at least no event is handled any more)
    {
        use assets_manager::verif_hooks::EVENTS_HANDLED;
        use std::sync::atomic::Ordering;
        let mem = Mem::new(true);
        mem.write("a", "x", b"1");
        let cache = AssetCache::with_source(mem.clone());
        cache.load::<TInt>("a").unwrap();
        cache.hot_reload();
        drop(cache);
        // keep sending for up to 3 s: the channel must get disconnected (the reloader left), or at
        // least nothing may be handled any more once a grace period of 1 s is over
        let t0 = Instant::now();
        let mut gone = false;
        let mut at_grace: Option<usize> = None;
        let mut accepted = 0;
        while t0.elapsed() < Duration::from_millis(3000) {
            if t0.elapsed() >= Duration::from_millis(1000) && at_grace.is_none() {
                at_grace = Some(EVENTS_HANDLED.load(Ordering::SeqCst));
            }
            if !mem.send(vec![OwnedDirEntry::File("a".into(), "x".into())]) {
                gone = true;
                break;
            }
            accepted += 1;
            std::thread::sleep(Duration::from_millis(20));
        }
        let handled = match at_grace {
            Some(h) if !gone => EVENTS_HANDLED.load(Ordering::SeqCst) - h,
            _ => 0,
        };
        evals += 1;
        samples.push(format!("{{\"kind\": \"events sent after the drop\", \"accepted_before_disconnect\": {accepted}, \"disconnected\": {gone}, \"handled_after_1s\": {handled}}}"));
        if handled > 0 {
            violations.push(("reloader-alive-after-drop".into(), format!("the event channel of a dropped cache was still connected after 3 s and {handled} events sent more than 1 s after the drop were handled by its reloader thread")));
        }
        std::mem::forget(mem);
    }

    // (1d) the same under a flood: feeder threads send events as fast as they can, before and after
    // the drop, and stop only when a send tells them the reloader is gone.  The reloader looks at its
    // cache messages first on every turn, so it learns about the drop whatever the event backlog:
    // soon after the drop every feeder has been told and no reloader thread is left burning CPU.
    {
        use std::sync::atomic::{AtomicBool, AtomicUsize, Ordering};
        use std::sync::Arc;
        let before = reloader_tasks().len();
        let mem = Mem::new(true);
        mem.write("a", "x", b"1");
        let cache = AssetCache::with_source(mem.clone());
        cache.load::<TInt>("a").unwrap();
        let told = Arc::new(AtomicUsize::new(0));
        let stop = Arc::new(AtomicBool::new(false));
        let feeders: Vec<_> = (0..3)
            .map(|_| {
                let mem = mem.clone();
                let told = told.clone();
                let stop = stop.clone();
                std::thread::spawn(move || {
                    while !stop.load(Ordering::Relaxed) {
                        let batch = vec![
                            OwnedDirEntry::File("a".into(), "x".into()),
                            OwnedDirEntry::File("zz".into(), "x".into()),
                        ];
                        if !mem.send(batch) {
                            told.fetch_add(1, Ordering::SeqCst);
                            return;
                        }
                    }
                })
            })
            .collect();
        std::thread::sleep(Duration::from_millis(100));
        drop(cache);
        let t0 = Instant::now();
        while told.load(Ordering::SeqCst) < 3 && t0.elapsed() < Duration::from_millis(2500) {
            std::thread::sleep(Duration::from_millis(10));
        }
        let told_n = told.load(Ordering::SeqCst);
        let waited = t0.elapsed().as_millis();
        let (n, ticks, states) = sample(200);
        stop.store(true, Ordering::Relaxed);
        for f in feeders {
            let _ = f.join();
        }
        evals += 1;
        samples.push(format!("{{\"kind\": \"cache dropped under an event flood (3 feeders)\", \"feeders_told\": {told_n}, \"after_ms\": {waited}, \"reloader_tasks_left\": {}, \"max_ticks_in_window\": {ticks}}}", n.saturating_sub(before)));
        if told_n < 3 || (n > before && ticks > 1) {
            violations.push(("reloader-alive-after-drop".into(), format!("cache dropped while 3 threads flood its event channel: {told_n} of 3 senders were told within {waited} ms, {} reloader task(s) left using {ticks} ticks in 200 ms (states {states})", n.saturating_sub(before))));
        }
        std::mem::forget(mem);
    }

    // (1e) the reloader is shut down before the source is dropped: a source whose destructor waits
    // for its event channel to be disconnected (a polling source joining its worker, which stops
    // when a send fails) does not block the drop of its cache
    {
        use assets_manager::source::{DirEntry, FileContent, Source};
        use std::sync::atomic::{AtomicU64, Ordering};
        use std::sync::Arc;
        struct Waits {
            inner: Mem,
            primary: bool,
            waited_ms: Arc<AtomicU64>,
        }
        impl Source for Waits {
            fn read(&self, id: &str, ext: &str) -> std::io::Result<FileContent> {
                self.inner.read(id, ext)
            }
            fn read_dir(&self, id: &str, f: &mut dyn FnMut(DirEntry)) -> std::io::Result<()> {
                self.inner.read_dir(id, f)
            }
            fn exists(&self, e: DirEntry) -> bool {
                self.inner.exists(e)
            }
            fn make_source(&self) -> Option<Box<dyn Source + Send>> {
                Some(Box::new(Waits { inner: self.inner.clone(), primary: false, waited_ms: self.waited_ms.clone() }))
            }
            fn configure_hot_reloading(&self, events: assets_manager::hot_reloading::EventSender) -> Result<(), assets_manager::BoxedError> {
                self.inner.configure_hot_reloading(events)
            }
        }
        impl Drop for Waits {
            fn drop(&mut self) {
                if !self.primary {
                    return;
                }
                // the worker of a polling source: keeps sending until it is told nobody listens
                let t0 = Instant::now();
                while t0.elapsed() < Duration::from_millis(2500) {
                    if !self.inner.send(vec![OwnedDirEntry::File("a".into(), "x".into())]) {
                        break;
                    }
                    std::thread::sleep(Duration::from_millis(5));
                }
                self.waited_ms.store(t0.elapsed().as_millis() as u64, Ordering::SeqCst);
            }
        }
        let waited = Arc::new(AtomicU64::new(0));
        let mem = Mem::new(true);
        mem.write("a", "x", b"1");
        let cache = AssetCache::with_source(Waits { inner: mem.clone(), primary: true, waited_ms: waited.clone() });
        cache.load::<TInt>("a").unwrap();
        cache.hot_reload();
        let t0 = Instant::now();
        drop(cache);
        let took = t0.elapsed().as_millis() as u64;
        let w = waited.load(Ordering::SeqCst);
        evals += 1;
        samples.push(format!("{{\"kind\": \"source whose destructor waits for the disconnection\", \"drop_took_ms\": {took}, \"source_waited_ms\": {w}}}"));
        if w >= 2500 {
            violations.push(("reloader-alive-after-drop".into(), format!("dropping a cache whose source's destructor waits for its event channel to be disconnected took {took} ms: the source waited {w} ms (its time-out) and was never told, i.e. the reloader was still there while the source was being dropped")));
        }
        std::mem::forget(mem);
    }

    // (1c) FileSystem caches: after the drop the notify watcher goes away too (it lets go when a
    // send fails), also when files keep changing under the root
    {
        let count_notify = || -> usize {
            std::fs::read_dir("/proc/self/task")
                .map(|d| {
                    d.flatten()
                        .filter(|e| std::fs::read_to_string(e.path().join("comm")).map(|c| c.starts_with("notify-rs")).unwrap_or(false))
                        .count()
                })
                .unwrap_or(0)
        };
        let base = count_notify();
        let d = tmp.join("watchers");
        let _ = std::fs::create_dir_all(&d);
        std::fs::write(d.join("a.txt"), "x").unwrap();
        let k = 4;
        for i in 0..k {
            let cache = AssetCache::with_source(FileSystem::new(&d).unwrap());
            let _ = cache.load::<String>("a");
            cache.hot_reload();
            drop(cache);
            // activity after the drop: this is what tells the watcher that nobody listens any more;
            // for every other cache only files that name no asset change (two dots in the name)
            for j in 0..5 {
                let f = if i % 2 == 0 { "a.txt" } else { "notes.v2.txt" };
                std::fs::write(d.join(f), format!("{i}-{j}")).unwrap();
                std::thread::sleep(Duration::from_millis(20));
            }
        }
        let mut left = count_notify().saturating_sub(base);
        let t0 = Instant::now();
        while left > 0 && t0.elapsed() < Duration::from_millis(2000) {
            std::fs::write(d.join("notes.v2.txt"), "again").unwrap();
            std::thread::sleep(Duration::from_millis(50));
            left = count_notify().saturating_sub(base);
        }
        evals += 1;
        samples.push(format!("{{\"kind\": \"FileSystem caches dropped, files still changing\", \"caches\": {k}, \"notify_threads_left\": {left}}}"));
        if left > 0 {
            violations.push(("reloader-alive-after-drop".into(), format!("{left} notify watcher thread(s) still alive 2 s after {k} FileSystem caches were dropped, although files under the root kept changing")));
        }
    }

    // (2) create / use / drop sequences
    let ks: &[usize] = if a.thorough() { &[1, 2, 4, 8] } else { &[1, 3] };
    'outer: for &k in ks {
        for (wi, when) in whens.iter().enumerate() {
            for fs in [false, true] {
                if !a.thorough() && fs && wi % 2 == 1 {
                    continue;
                }
                for i in 0..k {
                    if fs {
                        let d = tmp.join(format!("c{k}-{wi}-{i}"));
                        let _ = std::fs::create_dir_all(&d);
                        one_cache_fs(&d, *when);
                    } else {
                        one_cache_mem(*when);
                    }
                }
                // grace period, then the window
                std::thread::sleep(Duration::from_millis(150));
                let (n, ticks, states) = sample(window);
                evals += 1;
                let case = format!(
                    "{{\"kind\": \"create/use/drop\", \"caches\": {k}, \"source\": \"{}\", \"dropped\": \"{when:?}\", \"reloader_tasks_alive\": {n}, \"max_ticks_in_window\": {ticks}, \"states\": {}}}",
                    if fs { "FileSystem" } else { "Mem" },
                    jstr(&states)
                );
                if samples.len() < 6 {
                    samples.push(case.clone());
                }
                // a thread that still exists must at least sleep for good: no CPU in the window
                if ticks > 1 {
                    violations.push(("reloader-spins-after-drop".into(), case));
                    break 'outer;
                }
            }
        }
    }
    // (3) last, because the leaked cache keeps its reloader for the rest of the process:
    // the same for a cache that reloads eagerly ('static mode)
    {
        let smem = Mem::new(true);
        smem.write("a", "x", b"1");
        let scache: &'static AssetCache<Mem> = Box::leak(Box::new(AssetCache::with_source(smem.clone())));
        let _ = scache.load::<TInt>("a");
        scache.enhance_hot_reloading();
        std::thread::sleep(Duration::from_millis(100));
        let wake = sample_wakeups(window);
        evals += 1;
        samples.push(format!("{{\"kind\": \"idle live caches (one in 'static mode): wake-ups\", \"max_context_switches_in_window\": {wake}}}"));
        if wake > 3 {
            violations.push(("reloader-busy-while-idle".into(), format!("idle caches (one in 'static mode): a reloader task was woken {wake} times in {window} ms although nothing happened")));
        }
        std::mem::forget(smem);
    }
    let _ = std::fs::remove_dir_all(&tmp);
    if !violations.is_empty() {
        let mut f = String::new();
        for (class, case) in &violations {
            let case = if case.starts_with('{') { case.clone() } else { format!("{{\"observed\": {}}}", jstr(case)) };
            f.push_str(&format!(
                "{{\"engine\": \"loopdiff\", \"kind\": \"monitor\", \"class\": {}, \"case\": {}}}\n",
                jstr(class),
                case
            ));
        }
        std::fs::write(format!("{}/loopdiff.violations.jsonl", a.out), f).unwrap();
    }
    std::fs::write(
        format!("{}/loopdiff.summary.json", a.out),
        format!(
            "{{\"engine\": \"loopdiff\", \"evaluations\": {evals}, \"distinct_nontrivial\": {evals}, \"samples\": [{}], \"window_ms\": {window}}}",
            samples.join(", ")
        ),
    )
    .unwrap();
    std::process::exit(0);
}
