//! An accounting global allocator for the `bytesdiff` engine (C16).  It forwards to the system
//! allocator; while the calling thread has tracing switched on it records every block it hands out
//! (address, layout) in a fixed table and checks every block it gets back against that table:
//! same layout as at allocation, known address.  Nothing in here allocates.
use std::alloc::{GlobalAlloc, Layout, System};
use std::cell::Cell;
use std::sync::atomic::{AtomicBool, AtomicUsize, Ordering::*};

pub struct Ledger;

thread_local! { static ON: Cell<bool> = const { Cell::new(false) }; }

const CAP: usize = 1 << 15;
#[derive(Clone, Copy, Debug, PartialEq)]
pub struct Ev {
    pub alloc: bool,
    pub addr: usize,
    pub size: usize,
    pub align: usize,
}
struct Table {
    live: [(usize, usize, usize); CAP],
    n: usize,
    events: [Ev; CAP],
    ne: usize,
    record: bool,
}
static LOCK: AtomicBool = AtomicBool::new(false);
static mut T: Table = Table {
    live: [(0, 0, 0); CAP],
    n: 0,
    events: [Ev { alloc: false, addr: 0, size: 0, align: 0 }; CAP],
    ne: 0,
    record: false,
};
/// a traced block came back with another layout than it was allocated with
pub static MISMATCH: AtomicUsize = AtomicUsize::new(0);
/// a block came back during a traced window that the table does not know (double free, foreign pointer)
pub static UNTRACKED: AtomicUsize = AtomicUsize::new(0);
pub static OVERFLOW: AtomicUsize = AtomicUsize::new(0);
static N_LIVE: AtomicUsize = AtomicUsize::new(0);

fn lock() {
    while LOCK.compare_exchange_weak(false, true, Acquire, Relaxed).is_err() {
        std::hint::spin_loop();
    }
}
fn unlock() {
    LOCK.store(false, Release);
}
fn on() -> bool {
    ON.try_with(|c| c.get()).unwrap_or(false)
}

#[allow(static_mut_refs)]
unsafe impl GlobalAlloc for Ledger {
    unsafe fn alloc(&self, l: Layout) -> *mut u8 {
        let p = System.alloc(l);
        if on() && !p.is_null() {
            lock();
            let t = &mut *std::ptr::addr_of_mut!(T);
            if t.n < CAP {
                t.live[t.n] = (p as usize, l.size(), l.align());
                t.n += 1;
                N_LIVE.store(t.n, Relaxed);
            } else {
                OVERFLOW.fetch_add(1, Relaxed);
            }
            if t.record && t.ne < CAP {
                t.events[t.ne] = Ev { alloc: true, addr: p as usize, size: l.size(), align: l.align() };
                t.ne += 1;
            }
            unlock();
        }
        p
    }
    unsafe fn dealloc(&self, p: *mut u8, l: Layout) {
        let tracing = on();
        // blocks recorded in a window may come back at any time
        if tracing || N_LIVE.load(Relaxed) != 0 {
            lock();
            let t = &mut *std::ptr::addr_of_mut!(T);
            let mut found = false;
            for i in 0..t.n {
                if t.live[i].0 == p as usize {
                    if (t.live[i].1, t.live[i].2) != (l.size(), l.align()) {
                        MISMATCH.fetch_add(1, Relaxed);
                    }
                    t.live[i] = t.live[t.n - 1];
                    t.n -= 1;
                    N_LIVE.store(t.n, Relaxed);
                    found = true;
                    break;
                }
            }
            if tracing {
                if !found {
                    UNTRACKED.fetch_add(1, Relaxed);
                }
                if t.record && t.ne < CAP {
                    t.events[t.ne] = Ev { alloc: false, addr: p as usize, size: l.size(), align: l.align() };
                    t.ne += 1;
                }
            }
            unlock();
        }
        System.dealloc(p, l)
    }
}

/// Runs `f` with tracing on for this thread and returns the allocator events of the window
/// (only meaningful when no other thread traces at the same time).
#[allow(static_mut_refs)]
pub fn window<R>(f: impl FnOnce() -> R) -> (R, Vec<Ev>) {
    lock();
    unsafe {
        let t = &mut *std::ptr::addr_of_mut!(T);
        t.ne = 0;
        t.record = true;
    }
    unlock();
    ON.with(|c| c.set(true));
    let r = f();
    ON.with(|c| c.set(false));
    lock();
    let (n, mut buf) = unsafe {
        let t = &mut *std::ptr::addr_of_mut!(T);
        t.record = false;
        (t.ne, [Ev { alloc: false, addr: 0, size: 0, align: 0 }; 64])
    };
    let k = n.min(64);
    unsafe {
        let t = &*std::ptr::addr_of!(T);
        buf[..k].copy_from_slice(&t.events[..k]);
    }
    unlock();
    if n > 64 {
        // long windows (iterator growth): copy outside the lock is fine, nobody else records
        let all: Vec<Ev> = unsafe { (&*std::ptr::addr_of!(T)).events[..n].to_vec() };
        return (r, all);
    }
    (r, buf[..k].to_vec())
}

/// Tracing without an event log, for concurrent phases.
pub fn traced<R>(f: impl FnOnce() -> R) -> R {
    ON.with(|c| c.set(true));
    let r = f();
    ON.with(|c| c.set(false));
    r
}

#[allow(static_mut_refs)]
pub fn live_blocks() -> usize {
    lock();
    let n = unsafe { (&*std::ptr::addr_of!(T)).n };
    unlock();
    n
}

/// net effect of a window: (blocks that appeared, blocks that went away) as (size, align)
pub fn net(evs: &[Ev]) -> (Vec<(usize, usize)>, Vec<(usize, usize)>) {
    let mut new: Vec<(usize, usize, usize)> = vec![];
    let mut gone = vec![];
    for e in evs {
        if e.alloc {
            new.push((e.addr, e.size, e.align));
        } else if let Some(i) = new.iter().position(|b| b.0 == e.addr) {
            new.remove(i);
        } else {
            gone.push((e.size, e.align));
        }
    }
    (new.into_iter().map(|b| (b.1, b.2)).collect(), gone)
}
