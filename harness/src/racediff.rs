//! C01 (and the race part of C13): one stable handle per (id, type) under concurrency.
//!  (a) N threads forced past the cache miss on one key (a barrier inside the loader): all must end
//!      up with the same handle and value, exactly one loader value survives, the others are
//!      dropped at once;
//!  (b) threads mixing load / get_cached / get_or_insert / contains on overlapping keys, through
//!      AssetCache and AnyCache views: per key one address, presence never flips back;
//!  (c) a handle held across tens of thousands of unrelated insertions keeps address and content.
//! These monitors are the statements of Props/C01.v (race_has_one_winner_seen_by_all,
//! presence_is_monotone) evaluated on the implementation.
use crate::util::*;
use crate::world::*;
use assets_manager::{AssetCache, Handle};
use std::collections::HashMap;
use std::sync::atomic::Ordering;
use std::sync::{Arc, Barrier, Mutex};

fn violation(v: &Mutex<Vec<(String, String)>>, class: &str, what: String) {
    let mut g = v.lock().unwrap();
    if g.len() < 10 {
        g.push((class.to_string(), what));
    }
}

fn forced_miss_round(n: usize, hot: bool, via_any: bool, v: &Mutex<Vec<(String, String)>>) {
    reset_tokens();
    let _ = take_ledger();
    let mem = Mem::new(hot);
    mem.write("r", "n", b"barrier\nval 5");
    let cache = if hot { AssetCache::with_source(mem.clone()) } else { AssetCache::without_hot_reloading(mem.clone()) };
    RACE_ARRIVED.store(0, Ordering::SeqCst);
    RACE_EXPECTED.store(n as u64, Ordering::SeqCst);
    let start = Arc::new(Barrier::new(n));
    let results: Vec<(usize, u64, i64)> = std::thread::scope(|s| {
        let hs: Vec<_> = (0..n)
            .map(|i| {
                let cache = &cache;
                let start = start.clone();
                s.spawn(move || {
                    start.wait();
                    let h: &Handle<TNode> = if via_any && i % 2 == 0 {
                        cache.as_any_cache().load::<TNode>("r").unwrap()
                    } else {
                        cache.load::<TNode>("r").unwrap()
                    };
                    let g = h.read();
                    (h as *const _ as usize, g.0.tok.0, g.0.n)
                })
            })
            .collect();
        hs.into_iter().map(|h| h.join().unwrap()).collect()
    });
    let made = peek_next_tok() - 1;
    let dropped = take_ledger();
    let (a0, t0, _) = results[0];
    if results.iter().any(|(a, t, n)| *a != a0 || *t != t0 || *n != 5) {
        violation(v, "racers-disagree", format!("{n} racers on one key got (address, token, value) = {:?}", results));
    }
    // every loader value but the winner's is dropped right away, the winner's is alive
    let mut d = dropped.clone();
    d.sort();
    let expect: Vec<u64> = (1..=made).filter(|t| *t != t0).collect();
    if d != expect {
        violation(v, "loser-not-dropped", format!("{n} racers: {made} values made, winner token {t0}, dropped so far {:?}", dropped));
    }
    if !cache.contains::<TNode>("r") || cache.get_cached::<TNode>("r").map(|h| h as *const _ as usize) != Some(a0) {
        violation(v, "presence-flipped", "after the race the key is absent or at another address".into());
    }
    drop(cache);
    let after = take_ledger();
    if after != vec![t0] {
        violation(v, "loser-not-dropped", format!("dropping the cache dropped {:?}, expected just the winner {t0}", after));
    }
}

fn mixed_round(threads: usize, ops: usize, rng: &mut Rng, v: &Mutex<Vec<(String, String)>>) -> u64 {
    let mem = Mem::new(false);
    for i in 0..4 {
        mem.write(&format!("a{i}"), "x", format!("{i}").as_bytes());
    }
    let cache = AssetCache::without_hot_reloading(mem.clone());
    let seen: Mutex<HashMap<String, usize>> = Mutex::new(HashMap::new());
    let seeds: Vec<u64> = (0..threads).map(|_| rng.next()).collect();
    let total = std::sync::atomic::AtomicU64::new(0);
    std::thread::scope(|s| {
        for seed in seeds {
            let cache = &cache;
            let seen = &seen;
            let total = &total;
            s.spawn(move || {
                let mut rng = Rng(seed);
                let mut present: HashMap<String, bool> = HashMap::new();
                for _ in 0..ops {
                    let k = rng.below(4);
                    let any = rng.chance(1, 2);
                    let (name, addr): (String, Option<usize>) = match rng.below(5) {
                        0 | 1 => {
                            let id = format!("a{k}");
                            let h = if any { cache.as_any_cache().load::<TInt>(&id) } else { cache.load::<TInt>(&id) };
                            (format!("I:{id}"), h.ok().map(|h| h as *const _ as usize))
                        }
                        2 => {
                            let id = format!("a{k}");
                            (format!("I:{id}"), cache.get_cached::<TInt>(&id).map(|h| h as *const _ as usize))
                        }
                        3 => {
                            let id = format!("v{}", k % 2);
                            let h = if any {
                                cache.as_any_cache().get_or_insert::<SVal>(&id, SVal(V::new(1, "g")))
                            } else {
                                cache.get_or_insert::<SVal>(&id, SVal(V::new(1, "g")))
                            };
                            (format!("V:{id}"), Some(h as *const _ as usize))
                        }
                        _ => {
                            let id = format!("a{k}");
                            let c = cache.contains::<TInt>(&id);
                            if !c && present.get(&format!("I:{id}")) == Some(&true) {
                                violation(v, "presence-flipped", format!("contains::<TInt>({id:?}) is false after this thread saw the entry"));
                            }
                            if c {
                                present.insert(format!("I:{id}"), true);
                            }
                            (format!("I:{id}"), None)
                        }
                    };
                    total.fetch_add(1, Ordering::Relaxed);
                    match addr {
                        Some(a) => {
                            present.insert(name.clone(), true);
                            let mut g = seen.lock().unwrap();
                            match g.get(&name) {
                                Some(old) if *old != a => violation(v, "racers-disagree", format!("{name} seen at {old:#x} and at {a:#x}")),
                                Some(_) => {}
                                None => {
                                    g.insert(name, a);
                                }
                            }
                        }
                        None => {
                            if present.get(&name) == Some(&true) && !name.starts_with("V:") {
                                // a get_cached that finds nothing after the entry was seen
                                if cache.get_cached::<TInt>(&name[2..]).is_none() {
                                    violation(v, "presence-flipped", format!("{name} vanished"));
                                }
                            }
                        }
                    }
                }
            });
        }
    });
    total.load(Ordering::SeqCst)
}

fn held_handle(insertions: usize, v: &Mutex<Vec<(String, String)>>) {
    let mem = Mem::new(false);
    mem.write("h", "b", &[7u8; 300]);
    let cache = AssetCache::without_hot_reloading(mem.clone());
    let h = cache.load::<TBytes>("h").unwrap();
    let addr = h as *const _ as usize;
    for i in 0..insertions {
        cache.get_or_insert::<SVal>(&format!("k{i}"), SVal(V::new(i as i64, "g")));
        if i % 1000 == 0 {
            let g = h.read();
            if g.1 != vec![7u8; 300] {
                violation(v, "handle-moved", format!("held handle reads other content after {i} insertions"));
                return;
            }
        }
    }
    let again = cache.load::<TBytes>("h").unwrap() as *const _ as usize;
    if again != addr || h.read().1 != vec![7u8; 300] || h.id().as_str() != "h" {
        violation(v, "handle-moved", format!("after {insertions} insertions the key is at {again:#x}, was {addr:#x}"));
    }
}

/// A Compound whose load pre-registers a placeholder under ITS OWN key: the sequential form of a lost
/// insertion race (the insert after the load finds the key occupied).
pub struct TSelf(pub i64);
pub static SELF_ADDR: std::sync::atomic::AtomicUsize = std::sync::atomic::AtomicUsize::new(0);
impl assets_manager::Compound for TSelf {
    fn load(cache: assets_manager::AnyCache, id: &assets_manager::SharedString) -> Result<Self, assets_manager::BoxedError> {
        let h = cache.get_or_insert::<TSelf>(id, TSelf(1));
        SELF_ADDR.store(h as *const _ as usize, Ordering::SeqCst);
        Ok(TSelf(2))
    }
}

/// the insertion that loses keeps the first entry -- also without threads, on every front-end
fn reentrant_insert(v: &Mutex<Vec<(String, String)>>, fillers: usize) {
    fn check<'a>(label: &str, any: assets_manager::AnyCache<'a>, fillers: usize, v: &Mutex<Vec<(String, String)>>) {
        SELF_ADDR.store(0, Ordering::SeqCst);
        let h = any.load::<TSelf>("self").unwrap();
        let first = SELF_ADDR.load(Ordering::SeqCst);
        let a = h as *const _ as usize;
        for i in 0..fillers {
            let _ = any.get_or_insert::<SVal>(&format!("filler{i}"), SVal(V::new(i as i64, "filler")));
        }
        let later = any.get_cached::<TSelf>("self").map(|h| h as *const _ as usize);
        let again = any.load::<TSelf>("self").unwrap() as *const _ as usize;
        let val = h.read().0;
        if a != first || later != Some(first) || again != first || val != 1 {
            violation(
                v,
                "racers-disagree",
                format!("{label}: a load whose loader registered a placeholder under its own key: placeholder {first:#x}, load {a:#x}, get_cached {later:x?}, second load {again:#x}, value {val} (the first entry, value 1, must be kept)"),
            );
        }
    }
    let mem = Mem::new(false);
    let c = AssetCache::without_hot_reloading(mem.clone());
    check("AssetCache", c.as_any_cache(), fillers, v);
    let l = assets_manager::LocalAssetCache::with_source(Mem::new(false));
    check("LocalAssetCache", l.as_any_cache(), fillers, v);
}

/// ids are opaque: an id with a leading / trailing separator is its own key, found again under
/// exactly that spelling, on every front-end
fn odd_ids(v: &Mutex<Vec<(String, String)>>) {
    fn check<'a>(label: &str, any: assets_manager::AnyCache<'a>, v: &Mutex<Vec<(String, String)>>) {
        for (i, id) in ["k.", ".k", "k", "k..", "a.b.", ""].iter().enumerate() {
            let h = any.get_or_insert::<SVal>(id, SVal(V::new(i as i64, "odd"))) as *const _ as usize;
            let again = any.get_cached::<SVal>(id).map(|h| h as *const _ as usize);
            let val = any.get_cached::<SVal>(id).map(|h| h.read().0.n);
            if !any.contains::<SVal>(id) || again != Some(h) || val != Some(i as i64) {
                violation(v, "presence-flipped", format!("{label}: get_or_insert({id:?}) = {h:#x} holding {i}; then contains = {}, get_cached = {again:x?} holding {val:?}", any.contains::<SVal>(id)));
            }
        }
    }
    let c = AssetCache::without_hot_reloading(Mem::new(false));
    check("AssetCache", c.as_any_cache(), v);
    let l = assets_manager::LocalAssetCache::with_source(Mem::new(false));
    check("LocalAssetCache", l.as_any_cache(), v);
}

/// The key is the TEXT of the id, not the storage the caller keeps it in: ids that follow each other
/// in one reused buffer (same address, same length, other contents) name different entries.
fn id_buffer_reuse(v: &Mutex<Vec<(String, String)>>) {
    fn check<'a>(label: &str, any: assets_manager::AnyCache<'a>, v: &Mutex<Vec<(String, String)>>) {
        use std::fmt::Write;
        let mut buf = String::with_capacity(16);
        let mut seen: Vec<usize> = vec![];
        for i in 0..40i64 {
            buf.clear();
            write!(buf, "k{:02}.{:02}", i / 7, i).unwrap();
            let present_before = any.contains::<SVal>(&buf);
            let cached_before = any.get_cached::<SVal>(&buf).map(|h| (h as *const _ as usize, h.read().0.n));
            let h = any.get_or_insert::<SVal>(&buf, SVal(V::new(i, "buf")));
            let (addr, val, hid) = (h as *const _ as usize, h.read().0.n, h.id().to_string());
            if present_before || cached_before.is_some() || val != i || hid != buf || seen.contains(&addr) {
                violation(v, "presence-flipped", format!("{label}: ids written one after the other into one reused String: before inserting {buf:?}: contains = {present_before}, get_cached = {cached_before:x?}; get_or_insert({buf:?}, {i}) = {addr:#x} holding {val} with id {hid:?}{}", if seen.contains(&addr) { " (the handle of an earlier id)" } else { "" }));
                return;
            }
            seen.push(addr);
            // the same text from another buffer finds it; the previous text is still there
            let other = buf.clone();
            if any.get_cached::<SVal>(&other).map(|h| h as *const _ as usize) != Some(addr) {
                violation(v, "presence-flipped", format!("{label}: {other:?} inserted from one buffer is not found from another"));
                return;
            }
            // the last look-up of this round is a successful one from the reused buffer itself
            if any.get_cached::<SVal>(&buf).map(|h| h as *const _ as usize) != Some(addr) {
                violation(v, "presence-flipped", format!("{label}: {buf:?} is not found right after its insertion"));
                return;
            }
        }
    }
    let c = AssetCache::without_hot_reloading(Mem::new(false));
    check("AssetCache", c.as_any_cache(), v);
    let l = assets_manager::LocalAssetCache::with_source(Mem::new(false));
    check("LocalAssetCache", l.as_any_cache(), v);
    // directly on the LocalAssetCache (not through its AnyCache view)
    let l = assets_manager::LocalAssetCache::with_source(Mem::new(false));
    let mut buf = String::with_capacity(8);
    for i in 0..20i64 {
        use std::fmt::Write;
        buf.clear();
        write!(buf, "z.{:02}", i).unwrap();
        if l.contains::<SVal>(&buf) || l.get_cached::<SVal>(&buf).is_some() {
            violation(v, "presence-flipped", format!("LocalAssetCache: {buf:?} was never inserted but is reported present (the id before it in the same buffer was)"));
            break;
        }
        let n = l.get_or_insert::<SVal>(&buf, SVal(V::new(i, "buf"))).read().0.n;
        if n != i || l.get_cached::<SVal>(&buf).map(|h| h.read().0.n) != Some(i) {
            violation(v, "presence-flipped", format!("LocalAssetCache: get_or_insert({buf:?}, {i}) holds {n}"));
            break;
        }
    }
}

/// Presence is not disturbed by operations that name other keys: after removals / takes of keys
/// that are absent (and of one that is present), every other entry is still there, at its address,
/// for every thread.
fn unrelated_removals(v: &Mutex<Vec<(String, String)>>) {
    for hot in [false, true] {
        let mem = Mem::new(hot);
        for k in ["k0", "k1", "k2", "gone"] {
            mem.write(k, "x", b"7");
        }
        let mut c = if hot { AssetCache::with_source(mem.clone()) } else { AssetCache::without_hot_reloading(mem.clone()) };
        let addr = |c: &AssetCache<Mem>, k: &str| c.get_cached::<TInt>(k).map(|h| h as *const _ as usize);
        let before: Vec<Option<usize>> = ["k0", "k1", "k2"].iter().map(|k| c.load::<TInt>(k).ok().map(|h| h as *const _ as usize)).collect();
        let _ = c.load::<TInt>("gone");
        let mut steps: Vec<String> = vec![];
        let mut check = |c: &AssetCache<Mem>, steps: &Vec<String>| {
            std::thread::scope(|s| {
                for _ in 0..2 {
                    s.spawn(|| {
                        for (i, k) in ["k0", "k1", "k2"].iter().enumerate() {
                            if !c.contains::<TInt>(k) || addr(c, k) != before[i] || c.load::<TInt>(k).ok().map(|h| h as *const _ as usize) != before[i] {
                                violation(v, "presence-flipped", format!("hot = {hot}: after {} the entry {k} (loaded before, never removed) is absent or at another address", steps.join("; ")));
                            }
                        }
                    });
                }
            });
        };
        steps.push("remove of an absent key".into());
        let _ = c.remove::<TInt>("absent");
        check(&c, &steps);
        steps.push("take of an absent key".into());
        let _ = c.take::<TInt>("absent too");
        check(&c, &steps);
        steps.push("remove of another, present key".into());
        let _ = c.remove::<TInt>("gone");
        check(&c, &steps);
        steps.push("remove of the same key again".into());
        let _ = c.remove::<TInt>("gone");
        let _ = c.remove::<SVal>("k0");
        check(&c, &steps);
    }
}

/// Two types under one id are two keys, for every hash seed: many fresh caches (each draws its own
/// seeds) holding only (id, SVal); look-ups, presence and removal under other types must miss, and the
/// stored entry stays; with threads on the sharded cache.
fn same_id_other_type(trials: u64, v: &Mutex<Vec<(String, String)>>) {
    for i in 0..trials {
        let id = format!("k{i}");
        let mut c = assets_manager::LocalAssetCache::with_source(Mem::new(false));
        c.get_or_insert::<SVal>(&id, SVal(V::new(1, "k")));
        let r = std::panic::catch_unwind(std::panic::AssertUnwindSafe(|| {
            let mut bad: Vec<&str> = vec![];
            if c.contains::<TInt>(&id) {
                bad.push("contains::<TInt> is true");
            }
            if c.get_cached::<TIntS>(&id).is_some() {
                bad.push("get_cached::<TIntS> found an entry");
            }
            bad
        }));
        let mut bad: Vec<String> = match r {
            Ok(b) => b.into_iter().map(|x| x.to_string()).collect(),
            Err(_) => vec!["a look-up under another type panicked".to_string()],
        };
        if c.remove::<TInt>(&id) {
            bad.push("remove::<TInt> returned true".into());
        }
        if !c.contains::<SVal>(&id) {
            bad.push("the SVal entry is gone".into());
        }
        if !bad.is_empty() {
            violation(v, "presence-flipped", format!("LocalAssetCache holding only (SVal, {id:?}): {}", bad.join("; ")));
            return;
        }
    }
    for i in 0..trials / 8 {
        let c = AssetCache::without_hot_reloading(Mem::new(false));
        let ids: Vec<String> = (0..8).map(|j| format!("s{i}_{j}")).collect();
        for id in &ids {
            c.get_or_insert::<SVal>(id, SVal(V::new(1, "k")));
        }
        let r = std::panic::catch_unwind(std::panic::AssertUnwindSafe(|| {
            std::thread::scope(|s| {
                for _ in 0..2 {
                    s.spawn(|| ids.iter().any(|id| c.contains::<TInt>(id) || c.get_cached::<TIntS>(id).is_some() || !c.contains::<SVal>(id)));
                }
            });
            ids.iter().any(|id| c.contains::<TInt>(id) || c.as_any_cache().get_cached::<TIntS>(id).is_some())
        }));
        if !matches!(r, Ok(false)) {
            violation(v, "presence-flipped", format!("AssetCache holding only SVal entries under {ids:?}: a look-up under another type found something or panicked"));
            return;
        }
    }
}

pub fn run(a: &Args) {
    trace_enable(false);
    let mut rng = Rng::new(a.seed);
    let v = Mutex::new(vec![]);
    let mut evals = 0u64;
    let mut samples = vec![];
    let only_reentrant = a.get("parts") == Some("reentrant");
    let rounds = if only_reentrant { 0 } else if a.thorough() { 400 } else { 40 };
    for r in 0..rounds {
        for n in [2usize, 4, 8, 16] {
            if n == 16 && !a.thorough() && r % 4 != 0 {
                continue;
            }
            forced_miss_round(n, r % 3 == 0, r % 2 == 0, &v);
            evals += 1;
        }
    }
    samples.push(format!("{{\"kind\": \"forced simultaneous misses on one key\", \"racers\": [2, 4, 8, 16], \"rounds\": {rounds}}}"));
    let mut ops_total = 0;
    let mixed = if only_reentrant { 0 } else if a.thorough() { 200 } else { 30 };
    for _ in 0..mixed {
        let t = 2 + rng.below(7) as usize;
        ops_total += mixed_round(t, 200, &mut rng, &v);
        evals += 1;
    }
    samples.push(format!("{{\"kind\": \"mixed load/get_cached/get_or_insert/contains on 6 keys\", \"rounds\": {mixed}, \"operations\": {ops_total}}}"));
    for n in if only_reentrant { vec![] } else if a.thorough() { vec![10_000usize, 100_000, 300_000] } else { vec![10_000usize, 50_000] } {
        held_handle(n, &v);
        evals += 1;
        samples.push(format!("{{\"kind\": \"handle held across insertions\", \"insertions\": {n}}}"));
    }
    for fillers in [0usize, 5000] {
        reentrant_insert(&v, fillers);
        evals += 2;
    }
    odd_ids(&v);
    evals += 2;
    id_buffer_reuse(&v);
    evals += 3;
    if !only_reentrant {
        unrelated_removals(&v);
        evals += 2;
        std::panic::set_hook(Box::new(|_| {}));
        same_id_other_type(if a.thorough() { 40000 } else { 4000 }, &v);
        let _ = std::panic::take_hook();
        evals += 1;
    }
    samples.push("{\"kind\": \"loader registers a placeholder under its own key (AssetCache, LocalAssetCache)\"}".to_string());
    let viol = v.into_inner().unwrap();
    if !viol.is_empty() {
        let mut f = String::new();
        for (class, what) in &viol {
            f.push_str(&format!(
                "{{\"engine\": \"racediff\", \"kind\": \"monitor\", \"class\": {}, \"case\": {{\"observed\": {}}}}}\n",
                jstr(class),
                jstr(what)
            ));
        }
        std::fs::write(format!("{}/racediff.violations.jsonl", a.out), f).unwrap();
    }
    std::fs::write(
        format!("{}/racediff.summary.json", a.out),
        format!(
            "{{\"engine\": \"racediff\", \"evaluations\": {evals}, \"distinct_nontrivial\": {evals}, \"samples\": [{}]}}",
            samples.join(", ")
        ),
    )
    .unwrap();
}
