//! C04 / C11: one tree, every source.  A generated tree is materialised as a directory
//! (FileSystem), as zip archives (stored / deflated, member orders, with / without directory
//! members, `./` prefix, in memory and file backed) and as tar archives (same); a fixed tree is also
//! embedded at compile time.  Every source is asked the same questions (read, read_dir, exists on
//! present and absent entries, the root, directory assets for several extension lists) and the
//! answers go to coq/Corr/SrcCheck.v, which compares them with the tree specification Ref.Tree.
use crate::util::*;
use crate::world::*;
use assets_manager::source::{DirEntry, Embedded, FileSystem, Source, Tar, Zip};
use assets_manager::AssetCache;
use std::io::Write;
use std::path::Path;

#[derive(Clone, Debug)]
pub struct Tree {
    pub files: Vec<(Vec<String>, String, Vec<u8>)>,
    pub dirs: Vec<Vec<String>>,
}

fn id_coq(id: &[String]) -> String {
    clist(&id.iter().map(|s| cstr(s)).collect::<Vec<_>>())
}

fn segs_of(id: &str) -> Vec<String> {
    if id.is_empty() {
        vec![]
    } else {
        id.split('.').map(|s| s.to_string()).collect()
    }
}

impl Tree {
    fn coq(&self) -> String {
        format!(
            "{{| tfiles := {}; tdirs := {} |}}",
            clist(
                &self
                    .files
                    .iter()
                    .map(|(id, ext, b)| format!(
                        "({}, {}, {})",
                        id_coq(id),
                        cstr(ext),
                        clist(&b.iter().map(|x| x.to_string()).collect::<Vec<_>>())
                    ))
                    .collect::<Vec<_>>()
            ),
            clist(&self.dirs.iter().map(|d| id_coq(d)).collect::<Vec<_>>())
        )
    }
    fn rel_path(id: &[String], ext: Option<&str>) -> String {
        let mut p = id.join("/");
        if let Some(e) = ext {
            if !e.is_empty() {
                p.push('.');
                p.push_str(e);
            }
        }
        p
    }
}

const NAMES: &[&str] = &["a", "b", "c", "dir", "é x", "name_that_is_quite_long_to_make_paths_grow_beyond_one_hundred_bytes_in_tar_headers"];
// case variants: an extension matches by string equality only
const EXTS: &[&str] = &["x", "p", "q", "", "txt", "X", "Txt", "P"];

pub fn gen_tree(rng: &mut Rng) -> Tree {
    let mut t = Tree { files: vec![], dirs: vec![vec![]] };
    fn fill(rng: &mut Rng, t: &mut Tree, at: Vec<String>, depth: u32) {
        let n = rng.below(5);
        for _ in 0..n {
            let name = rng.pick(NAMES).to_string();
            let mut id = at.clone();
            id.push(name);
            if depth < 3 && rng.chance(1, 3) {
                // a directory (never next to an extension-less file of the same id)
                if !t.dirs.contains(&id) && !t.files.iter().any(|(i, e, _)| *i == id && e.is_empty()) {
                    t.dirs.push(id.clone());
                    fill(rng, t, id, depth + 1);
                }
            } else {
                let ext = rng.pick(EXTS).to_string();
                if ext.is_empty() && t.dirs.contains(&id) {
                    continue;
                }
                if !t.files.iter().any(|(i, e, _)| *i == id && *e == ext) {
                    let content = match rng.below(5) {
                        0 => vec![],
                        1 => (0..rng.below(400)).map(|_| rng.below(256) as u8).collect(),
                        _ => format!("{}", rng.below(100)).into_bytes(),
                    };
                    t.files.push((id, ext, content));
                }
            }
        }
    }
    fill(rng, &mut t, vec![], 0);
    // one stem under two extensions of a multi-extension type, with another matching file listed
    // between them (archives list in member order): the duplicate id is not adjacent before sorting
    if rng.chance(2, 3) {
        let at: Vec<String> = if t.dirs.len() > 1 && rng.chance(1, 2) { t.dirs[1].clone() } else { vec![] };
        for (stem, ext) in [("s1", "p"), ("t1", "q"), ("s1", "q"), ("t1", "r")] {
            let mut id = at.clone();
            id.push(stem.to_string());
            t.files.push((id, ext.to_string(), b"3".to_vec()));
        }
    }
    t
}

fn materialize_fs(t: &Tree, root: &Path) {
    let _ = std::fs::remove_dir_all(root);
    std::fs::create_dir_all(root).unwrap();
    for d in &t.dirs {
        std::fs::create_dir_all(root.join(Tree::rel_path(d, None))).unwrap();
    }
    for (id, ext, b) in &t.files {
        std::fs::write(root.join(Tree::rel_path(id, Some(ext))), b).unwrap();
    }
}

#[derive(Clone, Copy, Debug)]
pub struct ArchiveOpts {
    deflate: bool,
    order: u8,       // 0 as generated (parents first), 1 reversed (children before parents), 2 shuffled
    dir_members: u8, // 0 all, 1 none, 2 some
    dot_prefix: bool,
    detours: bool, // some member paths reach their directory through `x/..` (and `.`) components
}

enum Member {
    File(String, Vec<u8>),
    Dir(String),
}

/// The members of an archive of `t`, and the tree the archive really describes: a directory that
/// gets no member of its own and has nothing below it is simply not in the archive.
fn members(t: &Tree, o: ArchiveOpts, rng: &mut Rng) -> (Vec<Member>, Tree) {
    let pre = if o.dot_prefix { "./" } else { "" };
    let mut v = vec![];
    let mut named: Vec<Vec<String>> = t.files.iter().map(|(id, _, _)| id[..id.len() - 1].to_vec()).collect();
    for d in &t.dirs {
        if d.is_empty() {
            continue;
        }
        let keep = match o.dir_members {
            0 => true,
            1 => false,
            _ => rng.chance(1, 2),
        };
        if keep {
            v.push(Member::Dir(format!("{pre}{}/", Tree::rel_path(d, None))));
            named.push(d.clone());
        }
    }
    for (id, ext, b) in &t.files {
        v.push(Member::File(format!("{pre}{}", Tree::rel_path(id, Some(ext))), b.clone()));
    }
    if o.detours {
        // `zz/../a/f.x`, `a/zz/yy/../../f.x`, `a/./zz/../f.x`: the same member, spelled with a
        // detour at some depth (depth 0 pops the id builder back to the root)
        for m in v.iter_mut() {
            if !rng.chance(1, 2) {
                continue;
            }
            let p = match m {
                Member::File(p, _) | Member::Dir(p) => p,
            };
            let body = p.strip_prefix(pre).unwrap_or(p).to_string();
            let segs: Vec<&str> = body.split('/').collect();
            // the last segment is the file name (or "" after a directory's trailing slash)
            let ndirs = if body.ends_with('/') { segs.len().saturating_sub(2) } else { segs.len() - 1 };
            let at = rng.below(ndirs as u64 + 1) as usize;
            let detour = *rng.pick(&["zz/..", "zz/yy/../..", "./zz/..", "zz/../yy/.."]);
            let mut out: Vec<&str> = segs[..at].to_vec();
            out.push(detour);
            out.extend_from_slice(&segs[at..]);
            let np = format!("{pre}{}", out.join("/"));
            if np.len() <= 100 {
                *p = np;
            }
        }
    }
    match o.order {
        1 => v.reverse(),
        2 => {
            for i in (1..v.len()).rev() {
                let j = rng.below(i as u64 + 1) as usize;
                v.swap(i, j);
            }
        }
        _ => {}
    }
    let eff = Tree {
        files: t.files.clone(),
        dirs: t.dirs.iter().filter(|d| d.is_empty() || named.iter().any(|n| n.starts_with(d))).cloned().collect(),
    };
    (v, eff)
}

/// a member as the archive names it: the components std::path reports for the name (`..` and `.`
/// included) and whether it is a directory; the parsing is the model's (Corr/SrcCheck.v)
fn member_coq(m: &Member) -> String {
    let (path, is_dir) = match m {
        Member::File(p, _) => (p.as_str(), false),
        Member::Dir(p) => (p.as_str(), true),
    };
    let comps: Vec<String> = Path::new(path)
        .components()
        .map(|c| match c {
            std::path::Component::Normal(s) => format!("PN {}", cstr(s.to_str().unwrap())),
            std::path::Component::ParentDir => "PP".to_string(),
            std::path::Component::CurDir => "PC".to_string(),
            _ => "PN \"/\"".to_string(),
        })
        .collect();
    format!("({}, {})", clist(&comps), is_dir)
}

fn zip_bytes(ms: &[Member], o: ArchiveOpts) -> Vec<u8> {
    let mut w = zip::ZipWriter::new(std::io::Cursor::new(Vec::new()));
    let opts = zip::write::FileOptions::default().compression_method(if o.deflate {
        zip::CompressionMethod::Deflated
    } else {
        zip::CompressionMethod::Stored
    });
    for m in ms {
        match m {
            Member::File(name, data) => {
                w.start_file(name.clone(), opts).unwrap();
                w.write_all(data).unwrap();
            }
            Member::Dir(name) => {
                w.add_directory(name.clone(), opts).unwrap();
            }
        }
    }
    w.finish().unwrap().into_inner()
}

fn tar_bytes(ms: &[Member]) -> Vec<u8> {
    let mut b = tar::Builder::new(Vec::new());
    for m in ms {
        match m {
            Member::File(name, data) => {
                let mut h = tar::Header::new_gnu();
                h.set_size(data.len() as u64);
                h.set_mode(0o644);
                h.set_entry_type(tar::EntryType::Regular);
                if name.contains("..") {
                    // set_path refuses `..`: write the name field directly
                    h.as_old_mut().name[..name.len()].copy_from_slice(name.as_bytes());
                    h.set_cksum();
                    b.append(&h, &data[..]).unwrap();
                } else {
                    b.append_data(&mut h, &name, &data[..]).unwrap();
                }
            }
            Member::Dir(name) => {
                let mut h = tar::Header::new_gnu();
                h.set_size(0);
                h.set_mode(0o755);
                h.set_entry_type(tar::EntryType::Directory);
                if name.contains("..") {
                    h.as_old_mut().name[..name.len()].copy_from_slice(name.as_bytes());
                    h.set_cksum();
                    b.append(&h, std::io::empty()).unwrap();
                } else {
                    b.append_data(&mut h, &name, std::io::empty()).unwrap();
                }
            }
        }
    }
    b.into_inner().unwrap()
}

fn kind_str(e: &std::io::Error) -> String {
    if e.kind() == std::io::ErrorKind::NotFound {
        "ANotFound".to_string()
    } else {
        format!("(AErr {})", cstr(&format!("{:?}", e.kind())))
    }
}

fn dentry_coq(e: DirEntry) -> String {
    match e {
        DirEntry::File(id, ext) => format!("DFile {} {}", id_coq(&segs_of(id)), cstr(ext)),
        DirEntry::Directory(id) => format!("DDir {}", id_coq(&segs_of(id))),
    }
}

/// the questions every source is asked about a tree
fn queries(t: &Tree) -> Vec<(String, Vec<String>, String)> {
    // (kind, id, ext)
    let mut q = vec![];
    for (id, ext, _) in &t.files {
        q.push(("read".to_string(), id.clone(), ext.clone()));
        q.push(("existsf".to_string(), id.clone(), ext.clone()));
        q.push(("read".to_string(), id.clone(), "zz".to_string()));
        q.push(("readdir".to_string(), id.clone(), String::new()));
        q.push(("existsd".to_string(), id.clone(), String::new()));
    }
    for d in &t.dirs {
        q.push(("readdir".to_string(), d.clone(), String::new()));
        q.push(("existsd".to_string(), d.clone(), String::new()));
        q.push(("read".to_string(), d.clone(), "x".to_string()));
        q.push(("existsf".to_string(), d.clone(), "x".to_string()));
        let mut nope = d.clone();
        nope.push("nope".into());
        q.push(("readdir".to_string(), nope.clone(), String::new()));
        q.push(("read".to_string(), nope.clone(), "x".to_string()));
        q.push(("existsd".to_string(), nope.clone(), String::new()));
        q.push(("existsf".to_string(), nope, "x".to_string()));
    }
    q
}

fn probe<S: Source>(src: S, t: &Tree, with_root_file_query: bool) -> Vec<String> {
    let mut out = vec![];
    let cache = AssetCache::without_hot_reloading(src);
    let src = cache.raw_source();
    for (kind, id, ext) in queries(t) {
        if !with_root_file_query && id.is_empty() && (kind == "read" || kind == "existsf") {
            continue;
        }
        let sid = id.join(".");
        match kind.as_str() {
            "read" => {
                let a = match src.read(&sid, &ext) {
                    Ok(c) => format!(
                        "(ABytes {})",
                        clist(&c.as_ref().iter().map(|x| x.to_string()).collect::<Vec<_>>())
                    ),
                    Err(e) => kind_str(&e),
                };
                out.push(format!("(QRead {} {}, {})", id_coq(&id), cstr(&ext), a));
            }
            "readdir" => {
                let mut l = vec![];
                let a = match src.read_dir(&sid, &mut |e| l.push(dentry_coq(e))) {
                    Ok(()) => format!("(AListing {})", clist(&l)),
                    Err(e) => kind_str(&e),
                };
                out.push(format!("(QReadDir {}, {})", id_coq(&id), a));
            }
            "existsf" => {
                let b = src.exists(DirEntry::File(&sid, &ext));
                out.push(format!("(QExists (DFile {} {}), (ABool {}))", id_coq(&id), cstr(&ext), cbool(b)));
            }
            _ => {
                let b = src.exists(DirEntry::Directory(&sid));
                out.push(format!("(QExists (DDir {}), (ABool {}))", id_coq(&id), cbool(b)));
            }
        }
    }
    // directory assets
    let mut dirs: Vec<Vec<String>> = t.dirs.clone();
    dirs.push(vec!["nope".into()]);
    if let Some((id, _, _)) = t.files.first() {
        dirs.push(id.clone());
    }
    for d in &dirs {
        let sid = d.join(".");
        macro_rules! dir_queries {
            ($T:ty, $exts:expr) => {{
                let exts = clist(&$exts.iter().map(|e: &&str| cstr(e)).collect::<Vec<_>>());
                let a = match cache.load_dir::<$T>(&sid) {
                    Ok(h) => format!(
                        "(AIds {})",
                        clist(&h.read().ids().map(|i| id_coq(&segs_of(i))).collect::<Vec<_>>())
                    ),
                    Err(e) => match e.reason().downcast_ref::<std::io::Error>() {
                        Some(io) => kind_str(io),
                        None => "(AErr \"other\")".to_string(),
                    },
                };
                out.push(format!("(QLoadDir {} {}, {})", exts, id_coq(d), a));
                let a = match cache.load_rec_dir::<$T>(&sid) {
                    Ok(h) => format!(
                        "(AIds {})",
                        clist(&h.read().ids().map(|i| id_coq(&segs_of(i))).collect::<Vec<_>>())
                    ),
                    Err(e) => {
                        let mut cur: &(dyn std::error::Error + 'static) = e.reason();
                        while let Some(inner) = cur.downcast_ref::<assets_manager::Error>() {
                            cur = inner.reason();
                        }
                        match cur.downcast_ref::<std::io::Error>() {
                            Some(io) => kind_str(io),
                            None => "(AErr \"other\")".to_string(),
                        }
                    }
                };
                out.push(format!("(QLoadRecDir {} {}, {})", exts, id_coq(d), a));
            }};
        }
        dir_queries!(TInt, ["x"]);
        dir_queries!(TMulti, ["p", "q", "r"]);
        dir_queries!(TEmptyExt, [""]);
        dir_queries!(std::sync::Arc<TInt>, ["x"]);
    }
    out
}

/// iter / iter_cached of a directory asset: monitors on the implementation
fn iter_monitor<S: Source>(src: S, t: &Tree, label: &str, bad: &mut Vec<String>) {
    let cache = AssetCache::without_hot_reloading(src);
    for d in &t.dirs {
        let sid = d.join(".");
        if let Ok(h) = cache.load_dir::<String>(&sid) {
            let dir = h.read();
            let ids: Vec<String> = dir.ids().map(|i| i.to_string()).collect();
            let before = dir.iter_cached(&cache).count();
            let loaded: Vec<bool> = dir.iter(&cache).map(|r| r.is_ok()).collect();
            let after: Vec<String> = dir.iter_cached(&cache).map(|h| h.id().to_string()).collect();
            let ok_ids: Vec<String> = ids.iter().zip(&loaded).filter(|(_, ok)| **ok).map(|(i, _)| i.clone()).collect();
            if loaded.len() != ids.len() || before > ok_ids.len() || after != ok_ids {
                bad.push(format!(
                    "{label}: Directory<String>({sid:?}): ids {:?}, iter ok {:?}, iter_cached before {} after {:?}",
                    ids, loaded, before, after
                ));
            }
        }
    }
}

/// several threads reading one source at once (each read of an archive works on its own clone of
/// the reader): every read must return exactly the stored bytes
fn concurrent_reads<S: Source + Sync>(src: &S, t: &Tree, label: &str, bad: &mut Vec<String>) -> u64 {
    if t.files.is_empty() {
        return 0;
    }
    let wrong: std::sync::Mutex<Vec<String>> = std::sync::Mutex::new(vec![]);
    let n = std::sync::atomic::AtomicU64::new(0);
    std::thread::scope(|s| {
        for k in 0..4usize {
            let (wrong, n) = (&wrong, &n);
            s.spawn(move || {
                for round in 0..6 {
                    for (j, (id, ext, bytes)) in t.files.iter().enumerate() {
                        if (j + k + round) % 2 == 0 {
                            continue;
                        }
                        let sid = id.join(".");
                        n.fetch_add(1, std::sync::atomic::Ordering::Relaxed);
                        match src.read(&sid, ext) {
                            Ok(c) if c.as_ref() == &bytes[..] => {}
                            Ok(c) => wrong.lock().unwrap().push(format!("{label}: concurrent read of {sid}.{ext} gave {} bytes, stored {}", c.as_ref().len(), bytes.len())),
                            Err(e) => wrong.lock().unwrap().push(format!("{label}: concurrent read of {sid}.{ext} failed: {e}")),
                        }
                    }
                }
            });
        }
    });
    bad.extend(wrong.into_inner().unwrap().into_iter().take(3));
    n.into_inner()
}

/// members far larger than any internal buffer (decoder chunks of 32 KiB, pipe sizes): every source
/// must hand back exactly the stored bytes.  Judged here (byte equality with what was stored);
/// the contents are too long to be worth printing as Coq terms.
fn large_members(base: &Path, rng: &mut Rng, bad: &mut Vec<String>) -> u64 {
    let noise = |rng: &mut Rng, n: usize| -> Vec<u8> { (0..n).map(|_| rng.below(256) as u8).collect() };
    let t = Tree {
        files: vec![
            (vec!["big".into(), "noise40k".into()], "bin".into(), noise(rng, 40_000)),
            (vec!["big".into(), "noise200k".into()], "bin".into(), noise(rng, 200_000)),
            (vec!["big".into(), "text".into()], "txt".into(), b"all work and no play ".iter().cycle().take(300_000).copied().collect()),
            (vec!["small".into()], "x".into(), b"7".to_vec()),
            (vec!["edge32k".into()], "bin".into(), noise(rng, 32 * 1024 + 1)),
        ],
        dirs: vec![vec![], vec!["big".into()]],
    };
    let mut n = 0;
    let mut check = |label: &str, src: &dyn Source, bad: &mut Vec<String>| {
        for (id, ext, bytes) in &t.files {
            n += 1;
            let sid = id.join(".");
            match src.read(&sid, ext) {
                Ok(c) if c.as_ref() == &bytes[..] => {}
                Ok(c) => {
                    let got = c.as_ref();
                    let common = got.iter().zip(bytes.iter()).take_while(|(a, b)| a == b).count();
                    bad.push(format!("{label}: read of {sid}.{ext} gave {} bytes, stored {} bytes, common prefix {common}", got.len(), bytes.len()));
                }
                Err(e) => bad.push(format!("{label}: read of {sid}.{ext} ({} bytes) failed: {e}", bytes.len())),
            }
        }
    };
    let root = base.join("large");
    materialize_fs(&t, &root);
    check("filesystem", &FileSystem::new(&root).unwrap(), bad);
    for deflate in [false, true] {
        let o = ArchiveOpts { deflate, order: 0, dir_members: 0, dot_prefix: false, detours: false };
        let (ms, _) = members(&t, o, rng);
        let zb = zip_bytes(&ms, o);
        check(if deflate { "zip (deflated)" } else { "zip (stored)" }, &Zip::from_bytes(zb.clone()).unwrap(), bad);
        let zp = base.join(format!("large{}.zip", deflate as u8));
        std::fs::write(&zp, &zb).unwrap();
        check(if deflate { "zipfile (deflated)" } else { "zipfile (stored)" }, &Zip::open(&zp).unwrap(), bad);
        if !deflate {
            let tb = tar_bytes(&ms);
            check("tar", &Tar::from_bytes(tb.clone()).unwrap(), bad);
            let tp = base.join("large.tar");
            std::fs::write(&tp, &tb).unwrap();
            check("tarfile", &Tar::open(&tp).unwrap(), bad);
        }
    }
    n
}

fn tree_of_fs(root: &Path) -> Tree {
    let mut t = Tree { files: vec![], dirs: vec![vec![]] };
    fn walk(t: &mut Tree, dir: &Path, at: Vec<String>) {
        let mut entries: Vec<_> = std::fs::read_dir(dir).unwrap().flatten().collect();
        entries.sort_by_key(|e| e.file_name());
        for e in entries {
            let p = e.path();
            let stem = p.file_stem().unwrap().to_string_lossy().to_string();
            let mut id = at.clone();
            id.push(stem);
            if p.is_dir() {
                t.dirs.push(id.clone());
                walk(t, &p, id);
            } else {
                let ext = p.extension().map(|e| e.to_string_lossy().to_string()).unwrap_or_default();
                t.files.push((id, ext, std::fs::read(&p).unwrap()));
            }
        }
    }
    walk(&mut t, root, vec![]);
    t
}

pub fn run(a: &Args) {
    trace_enable(false);
    let mut rng = Rng::new(a.seed);
    let base = std::env::temp_dir().join(format!("amh-src-{}", std::process::id()));
    let _ = std::fs::remove_dir_all(&base);
    std::fs::create_dir_all(&base).unwrap();
    let n_trees = if a.thorough() { 120 } else { 12 };
    let mut cases = Cases::new();
    let g = cases.group("src_cases", "tree * list (query * answer)");
    let ga = cases.group("arch_cases", "list raw_member * list (query * answer)");
    let mut labels: std::collections::BTreeMap<String, u64> = Default::default();
    let mut iter_bad = vec![];
    let mut conc_reads = 0u64;
    let mut arch: Vec<(String, String, bool)> = vec![];
    let mut push = |cases: &mut Cases, t: &Tree, label: String, qa: Vec<String>| {
        *labels.entry(label.split(' ').next().unwrap().to_string()).or_insert(0) += 1;
        let coq = format!("({}, {})", t.coq(), clist(&qa));
        let json = format!(
            "{{\"source\": {}, \"files\": {}, \"dirs\": {}, \"questions\": {}}}",
            jstr(&label),
            jstr(&format!("{:?}", t.files.iter().map(|(i, e, b)| format!("{}{}{} ({} bytes)", i.join("/"), if e.is_empty() { "" } else { "." }, e, b.len())).collect::<Vec<_>>())),
            jstr(&format!("{:?}", t.dirs.iter().map(|d| d.join("/")).collect::<Vec<_>>())),
            qa.len()
        );
        cases.push_nt(g, coq, json, t.files.len() >= 2 && t.dirs.len() >= 2);
    };

    // the embedded fixed trees (walked at run time for the specification, embedded at compile time)
    macro_rules! embedded_tree {
        ($dir:literal) => {{
            let t = tree_of_fs(&Path::new(env!("CARGO_MANIFEST_DIR")).join($dir));
            let raw = assets_manager::source::embed!($dir);
            push(&mut cases, &t, format!("embedded {}", $dir), probe(Embedded::from(raw), &t, true));
            iter_monitor(Embedded::from(raw), &t, "embedded", &mut iter_bad);
            conc_reads += concurrent_reads(&Embedded::from(raw), &t, "embedded", &mut iter_bad);
            let fs = FileSystem::new(Path::new(env!("CARGO_MANIFEST_DIR")).join($dir)).unwrap();
            push(&mut cases, &t, format!("filesystem {}", $dir), probe(fs, &t, false));
        }};
    }
    embedded_tree!("trees/t1");
    embedded_tree!("trees/t2");

    for i in 0..n_trees {
        let t = gen_tree(&mut rng);
        // filesystem; a sibling `<root>.x` must not be visible through the empty id
        let root = base.join(format!("t{i}"));
        materialize_fs(&t, &root);
        std::fs::write(base.join(format!("t{i}.x")), b"outside").unwrap();
        push(&mut cases, &t, "filesystem".into(), probe(FileSystem::new(&root).unwrap(), &t, true));
        iter_monitor(FileSystem::new(&root).unwrap(), &t, "filesystem", &mut iter_bad);
        conc_reads += concurrent_reads(&FileSystem::new(&root).unwrap(), &t, "filesystem", &mut iter_bad);
        // the same tree with symbolic links in it: a linked file is a file, a linked directory a
        // directory with everything below it (the source follows links, like reading does)
        #[cfg(unix)]
        {
            let rootl = base.join(format!("t{i}l"));
            materialize_fs(&t, &rootl);
            let mut tl = t.clone();
            if let Some((id, ext, b)) = t.files.iter().find(|(id, _, _)| id.len() == 1).cloned() {
                let target = rootl.join(Tree::rel_path(&id, Some(&ext)));
                let link_id = vec!["lnkf".to_string()];
                if std::os::unix::fs::symlink(&target, rootl.join(Tree::rel_path(&link_id, Some(&ext)))).is_ok() {
                    tl.files.push((link_id, ext, b));
                }
            }
            if let Some(d) = t.dirs.iter().find(|d| d.len() == 1).cloned() {
                let target = rootl.join(Tree::rel_path(&d, None));
                if std::os::unix::fs::symlink(&target, rootl.join("lnkd")).is_ok() {
                    let re = |x: &Vec<String>| {
                        let mut v = vec!["lnkd".to_string()];
                        v.extend_from_slice(&x[1..]);
                        v
                    };
                    for x in t.dirs.iter().filter(|x| x.starts_with(&d)) {
                        tl.dirs.push(re(x));
                    }
                    for (id, ext, b) in t.files.iter().filter(|(id, _, _)| id.len() > d.len() && id.starts_with(&d)) {
                        tl.files.push((re(id), ext.clone(), b.clone()));
                    }
                }
            }
            if tl.files.len() + tl.dirs.len() > t.files.len() + t.dirs.len() {
                push(&mut cases, &tl, "filesystem with symbolic links".into(), probe(FileSystem::new(&rootl).unwrap(), &tl, true));
                iter_monitor(FileSystem::new(&rootl).unwrap(), &tl, "filesystem with symbolic links", &mut iter_bad);
            }
        }
        // archives
        let n_variants = if a.thorough() { 6 } else { 3 };
        for v in 0..n_variants {
            let o = ArchiveOpts {
                deflate: rng.chance(1, 2),
                order: (v % 3) as u8,
                dir_members: ((v + i) % 3) as u8,
                dot_prefix: rng.chance(1, 4),
                detours: rng.chance(1, 3),
            };
            // `t` asks the questions (also about directories the archive leaves out), `ta` is
            // what the archive describes
            let (ms, ta) = members(&t, o, &mut rng);
            let zb = zip_bytes(&ms, o);
            let qz = probe(Zip::from_bytes(zb.clone()).unwrap(), &t, true);
            let tb = tar_bytes(&ms);
            let qt = probe(Tar::from_bytes(tb.clone()).unwrap(), &t, true);
            // the same answers against the index model, members in archive order
            let msc = clist(&ms.iter().map(member_coq).collect::<Vec<_>>());
            for (kind, qa) in [("zip", &qz), ("tar", &qt)] {
                let only_src: Vec<String> = qa.iter().filter(|q| q.starts_with("(QRead") || q.starts_with("(QExists")).cloned().collect();
                arch.push((
                    format!("({}, {})", msc, clist(&only_src)),
                    format!("{{\"source\": {}, \"members\": {}, \"questions\": {}}}", jstr(&format!("{kind} {o:?}")), jstr(&format!("{:?}", ms.iter().map(|m| match m { Member::File(p, _) => p.clone(), Member::Dir(p) => p.clone() }).collect::<Vec<_>>())), only_src.len()),
                    ms.len() >= 3,
                ));
            }
            push(&mut cases, &ta, format!("zip {o:?}"), qz);
            push(&mut cases, &ta, format!("tar {o:?}"), qt);
            if v == 0 {
                let zp = base.join(format!("t{i}.zip"));
                std::fs::write(&zp, &zb).unwrap();
                push(&mut cases, &ta, format!("zipfile {o:?}"), probe(Zip::open(&zp).unwrap(), &t, true));
                iter_monitor(Zip::open(&zp).unwrap(), &ta, "zipfile", &mut iter_bad);
                conc_reads += concurrent_reads(&Zip::open(&zp).unwrap(), &ta, "zipfile", &mut iter_bad);
                conc_reads += concurrent_reads(&Zip::from_bytes(zb.clone()).unwrap(), &ta, "zip", &mut iter_bad);
                let tp = base.join(format!("t{i}.tar"));
                std::fs::write(&tp, &tb).unwrap();
                push(&mut cases, &ta, format!("tarfile {o:?}"), probe(Tar::open(&tp).unwrap(), &t, true));
                iter_monitor(Tar::open(&tp).unwrap(), &ta, "tarfile", &mut iter_bad);
                conc_reads += concurrent_reads(&Tar::open(&tp).unwrap(), &ta, "tarfile", &mut iter_bad);
                conc_reads += concurrent_reads(&Tar::from_bytes(tb.clone()).unwrap(), &ta, "tar", &mut iter_bad);
            }
        }
    }
    let large_reads = large_members(&base, &mut rng, &mut iter_bad);
    let _ = std::fs::remove_dir_all(&base);
    drop(push);
    for (coq, json, nt) in arch {
        cases.push_nt(ga, coq, json, nt);
    }
    if !iter_bad.is_empty() {
        let f: String = iter_bad
            .iter()
            .take(5)
            .map(|v| format!("{{\"engine\": \"srcdiff\", \"kind\": \"monitor\", \"class\": \"iter-mismatch\", \"case\": {{\"observed\": {}}}}}\n", jstr(v)))
            .collect();
        std::fs::write(format!("{}/srcdiff.violations.jsonl", a.out), f).unwrap();
    }
    cases.write(
        &a.out,
        "srcdiff",
        "From AM Require Import Ref.Tree Ref.Archive Corr.SrcCheck.",
        &[("src_cases", "src_check"), ("arch_cases", "arch_check")],
    );
    std::fs::write(
        format!("{}/srcdiff.summary.json", a.out),
        format!(
            "{{\"engine\": \"srcdiff\", \"explain\": {{\"src_cases\": \"src_explain\", \"arch_cases\": \"arch_explain\"}}, \"evaluations\": {}, \"distinct_nontrivial\": {}, \"samples\": {}, \"distribution\": {{\"sources\": {}, \"concurrent_reads\": {}, \"large_member_reads\": {}}}}}",
            cases.total(),
            cases.distinct_nontrivial(),
            cases.samples_json(),
            jmap(&labels),
            conc_reads,
            large_reads
        ),
    )
    .unwrap();
}
