//! C16: SharedBytes / SharedString on the real allocator.
//!  * op scripts (every constructor path, clone, drop, drop on another thread, deref) with the
//!    allocator ledger's net effect per step -> Coq cases checked against Ref.Bytes;
//!  * byte strings with what std::str::from_utf8 and SharedString::from_utf8 said -> Coq cases
//!    checked against Ref.Utf8;
//!  * monitors: layouts given back = layouts allocated, no unknown block freed, nothing left after
//!    the last drop (also after a multi-threaded clone/drop storm), eq/ord/hash as the slices.
use crate::ledger::{self, Ev, MISMATCH, OVERFLOW, UNTRACKED};
use crate::util::*;
use assets_manager::{SharedBytes, SharedString};
use std::borrow::Cow;
use std::collections::BTreeMap;
use std::hash::{Hash, Hasher};
use std::sync::atomic::Ordering::SeqCst;

fn nlist(b: &[u8]) -> String {
    clist(&b.iter().map(|x| x.to_string()).collect::<Vec<_>>())
}
fn llist(l: &[(usize, usize)]) -> String {
    clist(&l.iter().map(|(s, a)| format!("({s}, {a})")).collect::<Vec<_>>())
}
fn obs(read: Option<&[u8]>, evs: &[Ev]) -> String {
    let (new, gone) = ledger::net(evs);
    format!(
        "{{| ob_read := {}; ob_new := {}; ob_gone := {} |}}",
        match read {
            Some(b) => format!("Some {}", nlist(b)),
            None => "None".into(),
        },
        llist(&new),
        llist(&gone)
    )
}

struct Obj {
    h: u64,
    clones: Vec<SharedBytes>,
    src: Vec<u8>,
}

fn gen_bytes(rng: &mut Rng) -> Vec<u8> {
    let n = match rng.below(8) {
        0 => 0,
        1 => 1,
        2 => 7 + rng.below(3),
        3 => 31 + rng.below(3),
        4 => 255 + rng.below(3),
        _ => rng.below(40),
    };
    (0..n).map(|_| rng.below(256) as u8).collect()
}

pub const PATHS: &[&str] = &[
    "from_slice",
    "From<&[u8]>",
    "Cow::Borrowed",
    "from_vec (excess capacity)",
    "From<Vec> (empty, zero capacity)",
    "from_vec (empty, capacity > 0)",
    "From<Box<[u8]>>",
    "Cow::Owned",
    "FromIterator (exact size)",
    "FromIterator (growing)",
];

/// (value, Some(capacity) when the value came from a Vec whose capacity the harness knows,
/// is it a slice-like constructor, allocator events of the construction)
fn construct(path: usize, data: &[u8], extra: usize) -> (SharedBytes, Option<usize>, bool, Vec<Ev>) {
    match path {
        0 => {
            let (s, e) = ledger::window(|| SharedBytes::from_slice(data));
            (s, None, true, e)
        }
        1 => {
            let (s, e) = ledger::window(|| SharedBytes::from(data));
            (s, None, true, e)
        }
        2 => {
            let (s, e) = ledger::window(|| SharedBytes::from(Cow::Borrowed(data)));
            (s, None, true, e)
        }
        3 => {
            let ((s, c), e) = ledger::window(|| {
                let mut v = Vec::with_capacity(data.len() + extra);
                v.extend_from_slice(data);
                let c = v.capacity();
                (SharedBytes::from_vec(v), c)
            });
            (s, Some(c), false, e)
        }
        4 => {
            let (s, e) = ledger::window(|| SharedBytes::from(Vec::<u8>::new()));
            (s, Some(0), false, e)
        }
        5 => {
            let ((s, c), e) = ledger::window(|| {
                let v: Vec<u8> = Vec::with_capacity(1 + extra);
                let c = v.capacity();
                (SharedBytes::from_vec(v), c)
            });
            (s, Some(c), false, e)
        }
        6 => {
            let ((s, c), e) = ledger::window(|| {
                let b: Box<[u8]> = data.to_vec().into_boxed_slice();
                let c = b.len();
                (SharedBytes::from(b), c)
            });
            (s, Some(c), false, e)
        }
        7 => {
            let ((s, c), e) = ledger::window(|| {
                let v = data.to_vec();
                let c = v.capacity();
                (SharedBytes::from(Cow::<[u8]>::Owned(v)), c)
            });
            (s, Some(c), false, e)
        }
        8 => {
            let (s, e) = ledger::window(|| data.iter().copied().collect::<SharedBytes>());
            (s, None, false, e)
        }
        _ => {
            // no exact size hint: the Vec grows while it collects
            let (s, e) = ledger::window(|| data.iter().copied().filter(|_| true).collect::<SharedBytes>());
            (s, None, false, e)
        }
    }
}

/// one script; returns (coq case, json, monitor complaints)
fn script(rng: &mut Rng, len: usize, paths: &mut BTreeMap<&'static str, u64>, ops: &mut BTreeMap<&'static str, u64>) -> (String, String, Vec<String>) {
    let mut objs: Vec<Obj> = vec![];
    let mut next: u64 = 0; // the model's block counter
    let mut steps: Vec<String> = vec![];
    let mut human: Vec<String> = vec![];
    let mut bad: Vec<String> = vec![];
    let mut total = 0;
    loop {
        let live: Vec<usize> = (0..objs.len()).filter(|i| !objs[*i].clones.is_empty()).collect();
        let winding_down = total >= len;
        if winding_down && live.is_empty() {
            break;
        }
        let choice = if winding_down {
            7
        } else if live.is_empty() {
            0
        } else {
            rng.below(10)
        };
        total += 1;
        match choice {
            0 | 1 => {
                let data = if choice == 4 { vec![] } else { gen_bytes(rng) };
                let path = rng.below(PATHS.len() as u64) as usize;
                let data = if path == 4 || path == 5 { vec![] } else { data };
                let extra = if rng.chance(1, 2) { 0 } else { 1 + rng.below(20) as usize };
                let (sb, cap, slice_like, evs) = construct(path, &data, extra);
                *paths.entry(PATHS[path]).or_insert(0) += 1;
                let (new, _) = ledger::net(&evs);
                let step = if slice_like {
                    let h = next;
                    next += 1;
                    objs.push(Obj { h, clones: vec![sb], src: data.clone() });
                    format!("SFromSlice {}", nlist(&data))
                } else {
                    // capacity: known from the Vec, else read off the ledger (the align-1 block)
                    let cap = cap.unwrap_or_else(|| new.iter().find(|b| b.1 == 1).map(|b| b.0).unwrap_or(0));
                    let h = if cap == 0 { next } else { next + 1 };
                    next = h + 1;
                    objs.push(Obj { h, clones: vec![sb], src: data.clone() });
                    format!("SFromVec {} {}", nlist(&data), cap)
                };
                human.push(format!("{} of {} bytes", PATHS[path], data.len()));
                steps.push(format!("({step}, {})", obs(None, &evs)));
            }
            2 | 3 => {
                let i = *rng.pick(&live);
                let j = rng.below(objs[i].clones.len() as u64) as usize;
                let via_from = rng.chance(1, 3);
                let (c, evs) = if via_from {
                    ledger::window(|| SharedBytes::from(&objs[i].clones[j]))
                } else {
                    ledger::window(|| objs[i].clones[j].clone())
                };
                objs[i].clones.push(c);
                *ops.entry("clone").or_insert(0) += 1;
                human.push(format!("clone #{}", objs[i].h));
                steps.push(format!("(SClone {}, {})", objs[i].h, obs(None, &evs)));
            }
            4 | 5 | 6 => {
                let i = *rng.pick(&live);
                let j = rng.below(objs[i].clones.len() as u64) as usize;
                let (got, evs) = ledger::window(|| {
                    let s: &[u8] = &objs[i].clones[j];
                    (s.as_ptr() as usize, s.len())
                });
                let _ = got;
                let seen: Vec<u8> = objs[i].clones[j].to_vec();
                if seen != objs[i].src {
                    bad.push(format!("a clone of #{} reads {:?}, built from {:?}", objs[i].h, seen, objs[i].src));
                }
                // all clones alias one buffer
                let p0 = objs[i].clones[0].as_ptr();
                if objs[i].clones.iter().any(|c| c.as_ptr() != p0) {
                    bad.push(format!("clones of #{} point at different buffers", objs[i].h));
                }
                *ops.entry("deref").or_insert(0) += 1;
                human.push(format!("read #{}", objs[i].h));
                steps.push(format!("(SRead {}, {})", objs[i].h, obs(Some(&seen), &evs)));
            }
            _ => {
                let i = *rng.pick(&live);
                let j = rng.below(objs[i].clones.len() as u64) as usize;
                let victim = objs[i].clones.swap_remove(j);
                let evs = if rng.chance(1, 3) {
                    *ops.entry("drop on another thread").or_insert(0) += 1;
                    std::thread::spawn(move || ledger::window(move || drop(victim)).1).join().unwrap()
                } else {
                    *ops.entry("drop").or_insert(0) += 1;
                    ledger::window(move || drop(victim)).1
                };
                human.push(format!("drop #{}", objs[i].h));
                steps.push(format!("(SDrop {}, {})", objs[i].h, obs(None, &evs)));
            }
        }
    }
    if ledger::live_blocks() != 0 {
        bad.push(format!("{} blocks still allocated after every value was dropped", ledger::live_blocks()));
    }
    (clist(&steps), format!("{{\"steps\": {}}}", jstr(&human.join("; "))), bad)
}

const EDGE: &[u8] = &[
    0x00, 0x41, 0x7F, 0x80, 0x8F, 0x90, 0x9F, 0xA0, 0xBF, 0xC0, 0xC1, 0xC2, 0xDF, 0xE0, 0xE1, 0xEC, 0xED, 0xEE, 0xEF, 0xF0, 0xF1,
    0xF3, 0xF4, 0xF5, 0xFF,
];

fn utf8_inputs(rng: &mut Rng, thorough: bool) -> Vec<Vec<u8>> {
    let mut v: Vec<Vec<u8>> = vec![vec![]];
    for b in 0..=255u8 {
        v.push(vec![b]);
    }
    for a in EDGE {
        for b in EDGE {
            v.push(vec![*a, *b]);
            if thorough {
                for c in EDGE {
                    v.push(vec![*a, *b, *c]);
                }
            }
        }
    }
    // every lead byte of a 3- and 4-byte form with edge continuations
    for a in [0xE0u8, 0xE1, 0xEC, 0xED, 0xEE, 0xEF] {
        for b in [0x7Fu8, 0x80, 0x9F, 0xA0, 0xBF, 0xC0] {
            for c in [0x7Fu8, 0x80, 0xBF, 0xC0] {
                v.push(vec![a, b, c]);
            }
        }
    }
    for a in [0xF0u8, 0xF1, 0xF3, 0xF4, 0xF5] {
        for b in [0x7Fu8, 0x80, 0x8F, 0x90, 0xBF, 0xC0] {
            for c in [0x7Fu8, 0x80, 0xBF, 0xC0] {
                for d in [0x7Fu8, 0x80, 0xBF, 0xC0] {
                    v.push(vec![a, b, c, d]);
                }
            }
        }
    }
    // texts: valid strings from all planes, then damaged (truncated, one byte changed, spliced)
    let cps: &[u32] = &[0, 0x41, 0x7F, 0x80, 0x7FF, 0x800, 0xFFF, 0x1000, 0xD7FF, 0xE000, 0xFFFD, 0xFFFF, 0x10000, 0x3FFFF, 0x40000, 0x10FFFF];
    let n = if thorough { 20000 } else { 2500 };
    for _ in 0..n {
        let k = rng.below(6) as usize;
        let mut s = String::new();
        for _ in 0..k {
            let c = if rng.chance(1, 2) {
                *rng.pick(cps)
            } else {
                rng.below(0x110000) as u32
            };
            if let Some(ch) = char::from_u32(c) {
                s.push(ch);
            }
        }
        let mut b = s.into_bytes();
        match rng.below(5) {
            0 => {}
            1 => {
                let l = b.len();
                if l > 0 {
                    b.truncate(l - 1 - rng.below(l.min(3) as u64) as usize % l);
                }
            }
            2 => {
                if !b.is_empty() {
                    let i = rng.below(b.len() as u64) as usize;
                    b[i] = if rng.chance(1, 2) { *rng.pick(EDGE) } else { rng.below(256) as u8 };
                }
            }
            3 => {
                let i = rng.below(b.len() as u64 + 1) as usize;
                b.insert(i, *rng.pick(EDGE));
            }
            _ => {
                // a surrogate or an overlong form in three bytes
                let i = rng.below(b.len() as u64 + 1) as usize;
                let ins: [u8; 3] = if rng.chance(1, 2) { [0xED, 0xA0 + rng.below(32) as u8, 0x80] } else { [0xE0, 0x80 + rng.below(32) as u8, 0x80] };
                for (k, x) in ins.iter().enumerate() {
                    b.insert(i + k, *x);
                }
            }
        }
        v.push(b);
    }
    v
}

fn hash_of<T: Hash + ?Sized>(t: &T) -> u64 {
    let mut h = std::collections::hash_map::DefaultHasher::new();
    t.hash(&mut h);
    h.finish()
}

/// serde deserializers that hand the visitor raw bytes: borrowed (`visit_bytes`) or as an owned
/// buffer (`visit_byte_buf`) -- what a binary format does for a string it cannot validate itself
struct RawBytes<'a>(&'a [u8], bool);
impl<'de, 'a> serde::Deserializer<'de> for RawBytes<'a> {
    type Error = serde::de::value::Error;
    fn deserialize_any<V: serde::de::Visitor<'de>>(self, v: V) -> Result<V::Value, Self::Error> {
        if self.1 {
            v.visit_byte_buf(self.0.to_vec())
        } else {
            v.visit_bytes(self.0)
        }
    }
    serde::forward_to_deserialize_any! {
        bool i8 i16 i32 i64 i128 u8 u16 u32 u64 u128 f32 f64 char str string bytes byte_buf option unit
        unit_struct newtype_struct seq tuple tuple_struct map struct enum identifier ignored_any
    }
}

pub fn run(a: &Args) {
    let mut rng = Rng::new(a.seed ^ 0xB17E5);
    let mut cases = Cases::new();
    let gb = cases.group("bytes_cases", "list (step_t * obs)");
    let gu = cases.group("utf8_cases", "list N * bool * N * bool * bool");
    let gd = cases.group("de_cases", "list N * N * N * N");
    let mut bad: Vec<String> = vec![];
    let mut paths: BTreeMap<&'static str, u64> = BTreeMap::new();
    let mut ops: BTreeMap<&'static str, u64> = BTreeMap::new();

    // 1. op scripts
    let n_scripts = if a.thorough() { 1500 } else { 250 };
    for i in 0..n_scripts {
        let len = 4 + (i % 12);
        let (coq, json, b) = script(&mut rng, len, &mut paths, &mut ops);
        bad.extend(b);
        cases.push_nt(gb, coq, json, true);
    }

    // 2. UTF-8
    let mut accepted = 0u64;
    let inputs = utf8_inputs(&mut rng, a.thorough());
    for b in &inputs {
        let std_r = std::str::from_utf8(b);
        let (std_ok, upto) = match &std_r {
            Ok(_) => (true, b.len()),
            Err(e) => (false, e.valid_up_to()),
        };
        let ours = if rng.chance(1, 2) {
            SharedString::from_utf8(SharedBytes::from_slice(b))
        } else {
            SharedString::from_utf8(SharedBytes::from_vec(b.clone()))
        };
        let (ours_ok, same) = match &ours {
            Ok(s) => {
                accepted += 1;
                let as_str: &str = s;
                let as_bytes: &[u8] = s.as_ref();
                (true, as_str.as_bytes() == &b[..] && as_bytes == &b[..] && s.to_string().as_bytes() == &b[..] && s.clone().into_bytes() == b[..])
            }
            Err(_) => (false, false),
        };
        // the loader that makes a SharedString asset out of file contents validates the same way:
        // it accepts exactly what from_utf8 accepts and then holds exactly these bytes
        {
            use assets_manager::loader::{Loader, StringLoader};
            for (how, r) in [
                ("borrowed", <StringLoader as Loader<SharedString>>::load(Cow::Borrowed(&b[..]), "txt")),
                ("owned", <StringLoader as Loader<SharedString>>::load(Cow::Owned(b.clone()), "txt")),
            ] {
                let ok = match &r {
                    Ok(s) => s.as_bytes() == &b[..],
                    Err(_) => false,
                };
                if (r.is_ok() != ours_ok || (r.is_ok() && !ok)) && bad.len() < 5 {
                    bad.push(format!(
                        "StringLoader ({how} contents) for SharedString on {:02x?}: {} (from_utf8 {})",
                        b,
                        match &r { Ok(s) => format!("accepted, holds {:02x?}", s.as_bytes()), Err(_) => "refused".to_string() },
                        if ours_ok { "accepts" } else { "refuses" }
                    ));
                }
            }
        }
        let coq = format!("({}, {}, {}, {}, {})", nlist(b), cbool(std_ok), upto, cbool(ours_ok), cbool(same));
        let json = format!("{{\"bytes\": {}, \"std_accepts\": {}, \"valid_up_to\": {}, \"shared_string_accepts\": {}}}", jstr(&format!("{:02x?}", b)), std_ok, upto, ours_ok);
        cases.push_nt(gu, coq, json, b.len() >= 2);
        // deserialization from raw bytes: SharedString accepts exactly the well-formed strings and
        // then holds those bytes; SharedBytes takes anything and holds it (code 0 = refused,
        // 1 = accepted with exactly these bytes, 2 = accepted with other bytes)
        {
            use serde::Deserialize;
            let code_s = |owned: bool| -> u8 {
                match ledger::traced(|| SharedString::deserialize(RawBytes(b, owned))) {
                    Ok(s) => {
                        let bytes: &[u8] = s.as_ref();
                        let r = if bytes == &b[..] { 1 } else { 2 };
                        ledger::traced(move || drop(s));
                        r
                    }
                    Err(_) => 0,
                }
            };
            let (s_borrowed, s_owned) = (code_s(false), code_s(true));
            let code_b = |owned: bool| -> u8 {
                match ledger::traced(|| SharedBytes::deserialize(RawBytes(b, owned))) {
                    Ok(s) => {
                        let r = if &s[..] == &b[..] { 1 } else { 2 };
                        ledger::traced(move || drop(s));
                        r
                    }
                    Err(_) => 0,
                }
            };
            let b_code = if code_b(false) == 1 && code_b(true) == 1 { 1 } else { 0 };
            cases.push_nt(
                gd,
                format!("({}, {}, {}, {})", nlist(b), s_borrowed, s_owned, b_code),
                format!("{{\"bytes\": {}, \"SharedString::deserialize(visit_bytes)\": {}, \"SharedString::deserialize(visit_byte_buf)\": {}, \"SharedBytes::deserialize\": {}}}", jstr(&format!("{:02x?}", b)), s_borrowed, s_owned, b_code),
                b.len() >= 2,
            );
        }
        // the infallible constructors take text: what they hold is that text
        if let Ok(t) = std_r {
            for s in [SharedString::from(t), SharedString::from(t.to_string()), SharedString::from(Cow::Borrowed(t)), SharedString::from(Cow::<str>::Owned(t.to_string()))] {
                if &*s != t || hash_of(&s) != hash_of(t) || s != *t {
                    bad.push(format!("SharedString::from({:?}) holds {:?}", t, &*s));
                }
            }
        }
    }

    // 3. eq / ord / hash as the slices
    let mut pool: Vec<Vec<u8>> = (0..60).map(|_| gen_bytes(&mut rng)).collect();
    pool.push(vec![]);
    pool.push(vec![0]);
    pool.push(vec![0, 0]);
    pool.push(vec![255]);
    let shared: Vec<SharedBytes> = pool.iter().enumerate().map(|(i, b)| if i % 2 == 0 { SharedBytes::from_slice(b) } else { SharedBytes::from_vec(b.clone()) }).collect();
    let mut cmp_evals = 0u64;
    for (i, x) in pool.iter().enumerate() {
        for (j, y) in pool.iter().enumerate() {
            cmp_evals += 1;
            let (sx, sy) = (&shared[i], &shared[j]);
            if (sx == sy) != (x == y) || sx.cmp(sy) != x.cmp(y) || sx.partial_cmp(sy) != x.partial_cmp(y) || (*sx == y[..]) != (x == y) || (*sx == *y) != (x == y) || sx.partial_cmp(&y[..]) != x[..].partial_cmp(&y[..]) {
                bad.push(format!("comparison of {:?} with {:?} differs from the slices'", x, y));
            }
        }
        if hash_of(&shared[i]) != hash_of(&x[..]) {
            bad.push(format!("hash of {:?} differs from the slice's", x));
        }
    }
    drop(shared);

    // 4. clone / drop storm over threads: balance only
    let rounds = if a.thorough() { 200 } else { 30 };
    for r in 0..rounds {
        let data = gen_bytes(&mut rng);
        let base = ledger::traced(|| if r % 2 == 0 { SharedBytes::from_slice(&data) } else { SharedBytes::from_vec(data.clone()) });
        let k = 2 + (r % 5);
        let seeds: Vec<u64> = (0..k).map(|_| rng.next()).collect();
        let firsts: Vec<SharedBytes> = (0..k).map(|_| ledger::traced(|| base.clone())).collect();
        ledger::traced(|| drop(base));
        let wrong = std::sync::atomic::AtomicU64::new(0);
        std::thread::scope(|s| {
            for (mine, seed) in firsts.into_iter().zip(seeds) {
                let data = &data;
                let wrong = &wrong;
                s.spawn(move || {
                    let mut rng = Rng::new(seed);
                    let mut held = Vec::with_capacity(64);
                    held.push(mine);
                    for _ in 0..300 {
                        if held.is_empty() {
                            break;
                        }
                        let i = rng.below(held.len() as u64) as usize;
                        match rng.below(3) {
                            0 if held.len() < 60 => {
                                let c = ledger::traced(|| held[i].clone());
                                held.push(c);
                            }
                            1 => {
                                let v = held.swap_remove(i);
                                ledger::traced(move || drop(v));
                            }
                            _ => {
                                if &held[i][..] != &data[..] {
                                    wrong.fetch_add(1, SeqCst);
                                }
                            }
                        }
                    }
                    while let Some(v) = held.pop() {
                        ledger::traced(move || drop(v));
                    }
                });
            }
        });
        if wrong.load(SeqCst) != 0 {
            bad.push(format!("storm round {r}: a thread read other bytes than {:?}", data));
        }
        if ledger::live_blocks() != 0 {
            bad.push(format!("storm round {r}: {} blocks still allocated after the last drop", ledger::live_blocks()));
            break;
        }
    }
    // 5. the last two values dropped at the same instant on two threads (spin rendezvous)
    let pairs = if a.thorough() { 400_000 } else { 60_000 };
    {
        use std::sync::atomic::{AtomicPtr, AtomicUsize};
        let slots: [AtomicPtr<SharedBytes>; 2] = [AtomicPtr::new(std::ptr::null_mut()), AtomicPtr::new(std::ptr::null_mut())];
        let go = AtomicUsize::new(0);
        let done = AtomicUsize::new(0);
        let stop = std::sync::atomic::AtomicBool::new(false);
        std::thread::scope(|s| {
            for w in 0..2 {
                let (slots, go, done, stop) = (&slots, &go, &done, &stop);
                s.spawn(move || {
                    let mut round = 0usize;
                    loop {
                        round += 1;
                        while go.load(SeqCst) < round {
                            if stop.load(SeqCst) {
                                return;
                            }
                            std::hint::spin_loop();
                        }
                        let p = slots[w].swap(std::ptr::null_mut(), SeqCst);
                        let v: SharedBytes = unsafe { std::ptr::read(p) };
                        ledger::traced(move || drop(v));
                        done.fetch_add(1, SeqCst);
                    }
                });
            }
            // the two values travel through plain (untraced) boxes that the main thread owns
            let mut boxes: [Box<std::mem::MaybeUninit<SharedBytes>>; 2] = [Box::new(std::mem::MaybeUninit::uninit()), Box::new(std::mem::MaybeUninit::uninit())];
            for r in 1..=pairs {
                let v = ledger::traced(|| if r % 2 == 0 { SharedBytes::from_slice(&[1, 2, 3]) } else { SharedBytes::from_vec(vec![4, 5, 6, 7]) });
                let c = ledger::traced(|| v.clone());
                boxes[0].write(v);
                boxes[1].write(c);
                slots[0].store(boxes[0].as_mut_ptr(), SeqCst);
                slots[1].store(boxes[1].as_mut_ptr(), SeqCst);
                go.store(r, SeqCst);
                while done.load(SeqCst) < 2 * r {
                    std::hint::spin_loop();
                }
            }
            stop.store(true, SeqCst);
        });
        if ledger::live_blocks() != 0 {
            bad.push(format!(
                "{} blocks still allocated after {} rounds of dropping the last two clones of a value on two threads at once",
                ledger::live_blocks(),
                pairs
            ));
        }
    }
    if MISMATCH.load(SeqCst) != 0 {
        bad.push(format!("{} blocks were given back with another layout than they were allocated with", MISMATCH.load(SeqCst)));
    }
    if UNTRACKED.load(SeqCst) != 0 {
        bad.push(format!("{} frees of blocks the allocator ledger does not know (double free / foreign pointer)", UNTRACKED.load(SeqCst)));
    }
    if OVERFLOW.load(SeqCst) != 0 {
        bad.push("harness: ledger table overflow".into());
    }

    if !bad.is_empty() {
        let f: String = bad
            .iter()
            .take(5)
            .map(|v| format!("{{\"engine\": \"bytesdiff\", \"kind\": \"monitor\", \"class\": \"shared-bytes\", \"case\": {{\"observed\": {}}}}}\n", jstr(v)))
            .collect();
        std::fs::write(format!("{}/bytesdiff.violations.jsonl", a.out), f).unwrap();
    }
    cases.write(
        &a.out,
        "bytesdiff",
        "From AM Require Import Ref.Bytes Corr.BytesCheck.",
        &[("bytes_cases", "bytes_check_code"), ("utf8_cases", "utf8_check_code"), ("de_cases", "de_check_code")],
    );
    std::fs::write(
        format!("{}/bytesdiff.summary.json", a.out),
        format!(
            "{{\"engine\": \"bytesdiff\", \"explain\": {{\"bytes_cases\": \"bytes_explain\", \"utf8_cases\": \"utf8_explain\", \"de_cases\": \"de_explain\"}}, \"evaluations\": {}, \"distinct_nontrivial\": {}, \"samples\": {}, \"distribution\": {{\"constructor_paths\": {}, \"ops\": {}, \"utf8_inputs\": {}, \"utf8_accepted\": {}, \"comparisons\": {}, \"storm_rounds\": {}, \"simultaneous_last_drops\": {}}}}}",
            cases.total() as u64 + cmp_evals + rounds as u64 + pairs as u64,
            cases.distinct_nontrivial(),
            cases.samples_json(),
            jmap(&paths),
            jmap(&ops),
            inputs.len(),
            accepted,
            cmp_evals,
            rounds,
            pairs
        ),
    )
    .unwrap();
}
